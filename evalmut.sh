#!/bin/bash
# usage: evalmut.sh <mut-id> <demo-dir-relative-to-worktree> <check ids...>
# 1. confirms in the agent's worktree: tests pass with the patch, demo fails with / passes without
# 2. applies the patch to /repo, runs the given checks, restores /repo
id=$1; demodir=$2; shift 2
export GOFLAGS=-mod=mod GOPROXY=off
wt=/tmp/wt-$id; mut=/tmp/mut-$id
# demonstrations that need the race detector or the purego build say so in meta.txt
XF=""
grep -qi -- "-race" $mut/meta.txt 2>/dev/null && XF="$XF -race"
grep -qi -- "tags purego\|-tags=purego" $mut/meta.txt 2>/dev/null && XF="$XF -tags purego"
cd $wt || exit 2
# the worktree may have been disturbed (git stash is shared between worktrees): rebuild its state from patch.diff
# ... on top of /repo's present HEAD (repairs made since the worktree was created)
git checkout -q -- . && git checkout -q --detach "$(git -C /repo rev-parse HEAD)" && git apply $mut/patch.diff || { echo "patch.diff does not apply to a clean worktree"; exit 2; }
echo "== $id: patch"; git diff --stat | tail -n 3
echo "== build+tests with patch"; (go build ./... && go test -vet=off -count=1 . ./proto/... ./compress/... ./chpool/... 2>&1 | grep -v "no test files" | tail -n 6)
cp $mut/demo_test.go $wt/$demodir/zz_demo_test.go
echo "== demo with patch (expect FAIL)"; (cd $wt/$demodir && go test $XF -vet=off -count=1 -run 'Demo|Mut' . 2>&1 | tail -n 4)
git apply -R $mut/patch.diff
cp $mut/demo_test.go $wt/$demodir/zz_demo_test.go
echo "== demo without patch (expect ok)"; (cd $wt/$demodir && go test $XF -vet=off -count=1 -run 'Demo|Mut' . 2>&1 | tail -n 3)
rm -f $wt/$demodir/zz_demo_test.go
git apply $mut/patch.diff
echo "== checks against the patched worktree (VERIF_REPO=$wt; /repo untouched)"
for c in "$@"; do
  out=$(cd /verif && VERIF_REPO=$wt VERIF_SHRINK_RUNS=60 ./check $c 2>&1); rc=$?
  echo "-- $c exit=$rc"; echo "$out" | grep -A2 "^VIOLATION" | grep "clause=" | head -4 | cut -c1-200; echo "$out" | tail -n 1 | cut -c1-160
done
