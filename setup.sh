#!/bin/bash
# Warm the build cache offline: builds the weaver and one worker from /repo.
set -u
cd "$(dirname "$0")"
VERIF_RUNS=8 VERIF_NODET=1 VERIF_SETUP=1 ./check C04 >/dev/null 2>&1
exit 0
