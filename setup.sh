#!/bin/bash
# Warm the Go build cache offline: the weaver and the three worker flavours
# (default, race, purego) built from /repo's current tree. Runs no check.
set -u
cd "$(dirname "$0")"
for p in C04 C12 C15; do
  VERIF_SETUP=1 ./check $p >/dev/null 2>&1
done
exit 0
