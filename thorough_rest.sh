#!/bin/bash
for p in "$@"; do
  out=$(./check $p --tier thorough 2>&1); rc=$?
  echo "$p thorough rc=$rc $(echo "$out" | tail -n 1 | cut -c1-160)"
  if [ $rc -ne 0 ]; then echo "$out" | grep -A4 "^VIOLATION\|^HARNESS\|^REPLAY\|^NONDET" | head -30 | cut -c1-400; fi
done
