// Package sched is the seeded scheduler of engine A (DESIGN.md 4.3).
//
// It must be used inside a testing/synctest bubble. The root goroutine of the
// bubble runs Sim.Run; every other goroutine reaches the scheduler through
// Sim.Yield (installed as simrt.Hook) and is released one at a time.
package sched

import (
	"fmt"
	"hash/fnv"
	"os"
	"runtime"
	"sort"
	"sync/atomic"
	"testing/synctest"
	"time"

	"chgosim/choice"
)

var debugLive = os.Getenv("VERIF_DEBUG_SCHED") == "1"

type arrival struct {
	gid  uint64
	site string
	name string // non-empty for goroutines started through Sim.Go
	wake chan int
	sel  int  // >0: the goroutine asks for a choice in [0, sel) (rewritten select)
	exit bool // goroutine started through Sim.Go finished
	tick bool // timer wake-up for the scheduler, no goroutine attached
}

// Task is a goroutine known to the scheduler.
type Task struct {
	ID     int
	Name   string
	gid    uint64
	Site   string
	wake   chan int
	sel    int
	parked bool
	prio   int
	Steps  int
}

// Env is an environment action scheduled like a goroutine.
type Env interface {
	Name() string
	Enabled() bool
	Run()
}

type EnvFunc struct {
	N string
	E func() bool
	R func()
}

func (e *EnvFunc) Name() string  { return e.N }
func (e *EnvFunc) Enabled() bool { return e.E() }
func (e *EnvFunc) Run()          { e.R() }

// Outcome of Run.
type Outcome int

const (
	Done   Outcome = iota // main returned
	Hang                  // nothing can ever move again (no timer within the horizon)
	Budget                // decision budget exhausted
)

func (o Outcome) String() string { return [...]string{"done", "hang", "budget"}[o] }

type Sim struct {
	C *choice.Stream

	arrivals chan arrival
	tasks    map[uint64]*Task
	names    map[uint64]string
	all      []*Task
	envs     []Env
	envPrio  []int
	last     int // candidate key of what ran last: task id, or -1-envIndex; minInt none
	Step     int
	free     atomic.Bool
	mainDone chan struct{}
	mainSet  bool
	rootGid  uint64

	// knobs
	MaxSteps   int
	Horizon    time.Duration // simulated time after which an all-blocked system is a hang
	Strategy   int           // 0 uniform, 1 sticky, 2 priorities
	StickyK    int
	changeAt   map[int]bool
	Fair       bool // no voluntary time advance; every parked goroutine eventually released
	StallProb  int  // per-step chance (out of 1000) of a voluntary time advance when not Fair
	StallMenu  []time.Duration
	StallsLeft int
	FairSince  time.Duration // simulated instant at which fair mode began
	FairAfter  time.Duration // >0: switch to fair mode once this much simulated time has passed

	// observers, run on the scheduler goroutine while everything else is blocked
	OnStep []func()

	// stats
	Switches   int
	Stalls     int
	SiteHits   map[string]int
	PairHits   map[string]struct{}
	digest     uint64
	TraceLog   []string // only when KeepTrace
	KeepTrace  bool
	AmbigSpawn int
	start      time.Time
}

func New(c *choice.Stream) *Sim {
	s := &Sim{
		C:        c,
		arrivals: make(chan arrival, 4096),
		tasks:    map[uint64]*Task{},
		names:    map[uint64]string{},
		mainDone: make(chan struct{}),
		MaxSteps: 20000,
		Horizon:  time.Hour,
		SiteHits: map[string]int{},
		PairHits: map[string]struct{}{},
		last:     -1 << 30,
		rootGid:  goid(),
		StallMenu: []time.Duration{time.Millisecond, 100 * time.Millisecond, time.Second,
			2900 * time.Millisecond, 3100 * time.Millisecond, 10 * time.Second},
	}
	return s
}

// DrawStrategy picks the scheduling strategy and its parameters for this run.
func (s *Sim) DrawStrategy() {
	s.Strategy = s.C.Weighted("strategy", 3, 4, 3)
	switch s.Strategy {
	case 1:
		s.StickyK = s.C.Pick("stickyK", 2, 4, 8, 16, 64)
	case 2:
		n := s.C.Range("pct.d", 1, 4)
		s.changeAt = map[int]bool{}
		for i := 0; i < n; i++ {
			s.changeAt[s.C.Range("pct.at", 1, 600)] = true
		}
	}
	s.StallProb = s.C.Pick("stallprob", 0, 0, 2, 10)
	s.StallsLeft = 4
}

func goid() uint64 {
	var buf [64]byte
	n := runtime.Stack(buf[:], false)
	// "goroutine 123 ["
	var id uint64
	for i := len("goroutine "); i < n; i++ {
		c := buf[i]
		if c < '0' || c > '9' {
			break
		}
		id = id*10 + uint64(c-'0')
	}
	return id
}

// Yield is the scheduling point (simrt.Hook).
func (s *Sim) Yield(site string) {
	if s.free.Load() {
		return
	}
	gid := goid()
	if gid == s.rootGid {
		// library code called by the scenario itself on the scheduler goroutine
		return
	}
	raceDisable()
	w := make(chan int, 1)
	s.arrivals <- arrival{gid: gid, site: site, wake: w}
	<-w
	raceEnable()
}

// Sel is the scheduling point in front of a rewritten select (simrt.SelHook):
// the scheduler draws which case is polled first when it releases the goroutine.
func (s *Sim) Sel(site string, n int) int {
	if s.free.Load() {
		return 0
	}
	gid := goid()
	if gid == s.rootGid {
		return 0
	}
	raceDisable()
	w := make(chan int, 1)
	s.arrivals <- arrival{gid: gid, site: site, wake: w, sel: n}
	v := <-w
	raceEnable()
	return v
}

// Go starts a named workload goroutine under the scheduler.
func (s *Sim) Go(name string, f func()) {
	go func() {
		if !s.free.Load() {
			raceDisable()
			w := make(chan int, 1)
			s.arrivals <- arrival{gid: goid(), site: "start:" + name, name: name, wake: w}
			<-w
			raceEnable()
		}
		f()
		if !s.free.Load() {
			raceDisable()
			s.arrivals <- arrival{gid: goid(), name: name, exit: true}
			raceEnable()
		}
	}()
}

func (s *Sim) AddEnv(e Env) {
	s.envs = append(s.envs, e)
	s.envPrio = append(s.envPrio, 0)
}

// WakeAfter makes sure the scheduler re-evaluates its candidates after d of
// simulated time even if no goroutine becomes runnable then (delayed
// environment actions).
func (s *Sim) WakeAfter(d time.Duration) {
	time.AfterFunc(d, func() {
		if !s.free.Load() {
			s.arrivals <- arrival{tick: true}
		}
	})
}

func (s *Sim) admit(a arrival) {
	if a.tick {
		return
	}
	t := s.tasks[a.gid]
	if a.exit {
		if t != nil {
			delete(s.tasks, a.gid)
			t.parked = false
			t.Site = "exit"
		}
		return
	}
	if t == nil {
		t = &Task{ID: len(s.all), gid: a.gid, Name: a.name}
		if t.Name == "" {
			t.Name = fmt.Sprintf("g%d", t.ID)
		}
		if s.Strategy == 2 {
			t.prio = 1 + s.C.Draw("prio", 1000)
		}
		s.all = append(s.all, t)
		s.tasks[a.gid] = t
		s.names[a.gid] = t.Name
	}
	t.Site = a.site
	t.wake = a.wake
	t.sel = a.sel
	t.parked = true
	s.SiteHits[a.site]++
}

// drain admits every queued arrival. New goroutines of one step are ordered by
// (site, runtime goroutine id) so that logical ids do not depend on which of
// them reached its first yield first in real time.
func (s *Sim) drain() {
	var batch []arrival
	for {
		select {
		case a := <-s.arrivals:
			batch = append(batch, a)
			continue
		default:
		}
		break
	}
	if len(batch) == 0 {
		return
	}
	newSites := map[string]int{}
	sort.SliceStable(batch, func(i, j int) bool {
		ti, tj := s.tasks[batch[i].gid], s.tasks[batch[j].gid]
		// known tasks first, by logical id
		if (ti != nil) != (tj != nil) {
			return ti != nil
		}
		if ti != nil {
			if ti.ID != tj.ID {
				return ti.ID < tj.ID
			}
			return false // same goroutine: keep order (exit after yield)
		}
		if batch[i].name != batch[j].name {
			return batch[i].name < batch[j].name
		}
		if batch[i].site != batch[j].site {
			return batch[i].site < batch[j].site
		}
		return batch[i].gid < batch[j].gid
	})
	for _, a := range batch {
		if s.tasks[a.gid] == nil && !a.exit && !a.tick {
			newSites[a.name+"|"+a.site]++
			if newSites[a.name+"|"+a.site] > 1 {
				s.AmbigSpawn++
			}
		}
		s.admit(a)
	}
}

// MarkMainDone is called by the wrapper of the main workload goroutine.
func (s *Sim) MarkMainDone() {
	if !s.mainSet {
		s.mainSet = true
		close(s.mainDone)
	}
}

type cand struct {
	key  int // task id, or -1-env index
	task *Task
	env  int
}

func (s *Sim) candidates() []cand {
	var cs []cand
	for _, t := range s.all {
		if t.parked {
			cs = append(cs, cand{key: t.ID, task: t})
		}
	}
	for i, e := range s.envs {
		if e.Enabled() {
			cs = append(cs, cand{key: -1 - i, env: i})
		}
	}
	// rotate so that what ran last comes first
	for i, c := range cs {
		if c.key == s.last && i > 0 {
			rot := append([]cand{c}, cs[:i]...)
			rot = append(rot, cs[i+1:]...)
			return rot
		}
	}
	return cs
}

func (s *Sim) pick(cs []cand) cand {
	n := len(cs)
	if n == 1 {
		return cs[0]
	}
	switch s.Strategy {
	case 1:
		if cs[0].key == s.last {
			if s.C.Draw("sw", s.StickyK) != s.StickyK-1 {
				return cs[0]
			}
		}
		return cs[s.C.Draw("pick", n)]
	case 2:
		if s.changeAt[s.Step] {
			// demote what ran last
			for _, c := range cs {
				if c.key == s.last {
					if c.task != nil {
						c.task.prio = -s.Step
					} else {
						s.envPrio[c.env] = -s.Step
					}
				}
			}
		}
		// occasional random pick keeps env actions from starving forever
		if s.C.Draw("pct.rand", 16) == 15 {
			return cs[s.C.Draw("pick", n)]
		}
		best := cs[0]
		bp := s.prioOf(best)
		for _, c := range cs[1:] {
			if p := s.prioOf(c); p > bp {
				best, bp = c, p
			}
		}
		return best
	default:
		return cs[s.C.Draw("pick", n)]
	}
}

func (s *Sim) prioOf(c cand) int {
	if c.task != nil {
		return c.task.prio
	}
	return s.envPrio[c.env]
}

func (s *Sim) note(who, site string) {
	h := fnv.New64a()
	var b [8]byte
	for i := 0; i < 8; i++ {
		b[i] = byte(s.digest >> (8 * i))
	}
	h.Write(b[:])
	h.Write([]byte(who))
	h.Write([]byte{0})
	h.Write([]byte(site))
	s.digest = h.Sum64()
	if debugLive {
		fmt.Fprintf(os.Stderr, "SCHED %d %s @%s t=%v\n", s.Step, who, site, time.Since(s.start))
	}
	if s.KeepTrace {
		s.TraceLog = append(s.TraceLog, fmt.Sprintf("%d %s @%s t=%v", s.Step, who, site, time.Since(s.start)))
	}
}

// Note lets environment code add an event to the schedule digest and trace.
func (s *Sim) Note(who, what string) { s.note(who, what) }

func (s *Sim) Digest() uint64 { return s.digest }

// Now is simulated time since the run began.
func (s *Sim) Now() time.Duration { return time.Since(s.start) }

// Run drives the bubble until main returns, the system hangs or the budget is
// exhausted. It must be called on the bubble's root goroutine.
func (s *Sim) Run(main func()) Outcome {
	// The scheduler goroutine itself keeps normal race semantics: its
	// hand-offs with the other goroutines are hidden on their side (Yield),
	// which is enough to keep the scheduler from ordering them, while
	// environment actions (cancel a context, close a channel) synchronise
	// with the workload like any foreign goroutine would.
	s.start = time.Now()
	horizon := time.NewTimer(s.Horizon)
	defer horizon.Stop()
	s.Go("main", func() {
		main()
		s.MarkMainDone()
	})
	for {
		if debugLive {
			fmt.Fprintf(os.Stderr, "SCHED wait...\n")
		}
		synctest.Wait()
		s.drain()
		if debugLive {
			fmt.Fprintf(os.Stderr, "SCHED drained, parked=%v\n", s.Parked())
		}
		select {
		case <-s.mainDone:
			s.drain()
			return Done
		default:
		}
		for _, f := range s.OnStep {
			f()
		}
		cs := s.candidates()
		if len(cs) == 0 {
			// everything waits on time or on something that never comes
			select {
			case a := <-s.arrivals:
				s.admit(a)
			case <-s.mainDone:
			case <-horizon.C:
				return Hang
			}
			continue
		}
		s.Step++
		if s.Step > s.MaxSteps {
			return Budget
		}
		if s.FairAfter > 0 && !s.Fair && time.Since(s.start) >= s.FairAfter {
			s.Fair = true
			s.FairSince = time.Since(s.start)
		}
		if !s.Fair && s.StallProb > 0 && s.StallsLeft > 0 && s.C.Draw("stall?", 1000) < s.StallProb {
			d := s.StallMenu[s.C.Draw("stall.d", len(s.StallMenu))]
			s.StallsLeft--
			s.Stalls++
			s.note("env:stall", d.String())
			time.Sleep(d)
			continue
		}
		c := s.pick(cs)
		if c.key != s.last {
			s.Switches++
			if c.task != nil {
				for _, o := range cs {
					if o.task != nil && o.task != c.task {
						s.PairHits[c.task.Site+"|"+o.task.Site] = struct{}{}
					}
				}
			}
		}
		s.last = c.key
		if c.task != nil {
			t := c.task
			t.parked = false
			t.Steps++
			v := 0
			if t.sel > 1 {
				v = s.C.Draw("select", t.sel)
				s.note(t.Name, fmt.Sprintf("%s prefer=%d", t.Site, v))
			} else {
				s.note(t.Name, t.Site)
			}
			t.wake <- v
		} else {
			e := s.envs[c.env]
			s.note("env:"+e.Name(), "")
			e.Run()
		}
	}
}

// Quiesce lets every goroutine that is parked at a yield run on, one at a
// time, until none is parked or the budget is used up. No environment action
// runs and no simulated time passes: it takes the system to a quiescent point
// after main has returned.
func (s *Sim) Quiesce(budget int) {
	for i := 0; i < budget; i++ {
		synctest.Wait()
		s.drain()
		var t *Task
		for _, x := range s.all {
			if x.parked {
				t = x
				break
			}
		}
		if t == nil {
			return
		}
		s.Step++
		t.parked = false
		v := 0
		if t.sel > 1 {
			v = s.C.Draw("select", t.sel)
		}
		s.note(t.Name, t.Site+" (quiesce)")
		t.wake <- v
	}
}

// Release switches to free-running mode: every parked goroutine continues and
// later yields return immediately. Used for end-of-run cleanup.
func (s *Sim) Release() {
	s.free.Store(true)
	for {
		synctest.Wait()
		s.drain()
		n := 0
		for _, t := range s.all {
			if t.parked {
				t.parked = false
				t.wake <- 0
				n++
			}
		}
		if n == 0 {
			return
		}
	}
}

// Parked lists "name@site" of goroutines parked at yields.
func (s *Sim) Parked() []string {
	var out []string
	for _, t := range s.all {
		if t.parked {
			out = append(out, t.Name+"@"+t.Site)
		}
	}
	return out
}

// TaskName returns the logical name of the calling goroutine if known. It may
// only be called from code that runs while the scheduler is blocked in
// synctest.Wait (i.e. from the single running goroutine).
func (s *Sim) TaskName() string {
	if t := s.tasks[goid()]; t != nil {
		return t.Name
	}
	return "?"
}

// RaceDisable / RaceEnable bracket harness code whose internal synchronisation
// must stay invisible to the race detector (no-ops without -race).
func RaceDisable() { raceDisable() }
func RaceEnable()  { raceEnable() }

// Gid is the runtime id of the calling goroutine.
func Gid() uint64 { return goid() }

// NameOf resolves a runtime goroutine id recorded earlier to its logical name.
func (s *Sim) NameOf(gid uint64) string {
	if n, ok := s.names[gid]; ok {
		return n
	}
	return "?"
}

// SetFair switches to fair mode (no voluntary stalls).
func (s *Sim) SetFair() {
	if !s.Fair {
		s.Fair = true
		s.FairSince = time.Since(s.start)
	}
}
