//go:build race

package sched

import "runtime"

// The scheduler's hand-offs must not create happens-before edges between the
// goroutines it serialises, or the race detector would be blind (DESIGN 4.7).
func raceDisable() { runtime.RaceDisable() }
func raceEnable()  { runtime.RaceEnable() }

const RaceBuild = true
