//go:build !race

package sched

func raceDisable() {}
func raceEnable()  {}

const RaceBuild = false
