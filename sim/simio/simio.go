// Package simio is engine B (DESIGN.md section 5): faulty streams under the
// single-threaded surfaces of the library.
package simio

import (
	"errors"
	"io"
	"math/rand/v2"
	"syscall"
)

// End modes of a FaultyReader.
const (
	EndEOF        = iota // (0, io.EOF) after the last byte
	EndEOFWithData       // the last read returns (n>0, io.EOF)
	EndReset             // (0, ECONNRESET) after the last byte
	EndUnexpected        // (0, io.ErrUnexpectedEOF)
)

var ErrReset = &resetErr{}

type resetErr struct{}

func (*resetErr) Error() string   { return "read: connection reset by peer" }
func (*resetErr) Unwrap() error   { return syscall.ECONNRESET }
func (*resetErr) Timeout() bool   { return false }
func (*resetErr) Temporary() bool { return false }

// FaultyReader serves data in segments of chosen sizes and ends in a chosen way.
type FaultyReader struct {
	Data  []byte
	Pos   int
	Segs  []int // sizes of successive reads (at most); when exhausted, Rng or everything
	seg   int
	Rng   *rand.Rand
	MaxSeg int
	End   int
	Reads int
	Served int
}

func (f *FaultyReader) Read(p []byte) (int, error) {
	f.Reads++
	if len(p) == 0 {
		return 0, nil
	}
	left := len(f.Data) - f.Pos
	if left == 0 {
		switch f.End {
		case EndReset:
			return 0, ErrReset
		case EndUnexpected:
			return 0, io.ErrUnexpectedEOF
		}
		return 0, io.EOF
	}
	n := left
	if f.seg < len(f.Segs) {
		n = f.Segs[f.seg]
		f.seg++
	} else if f.Rng != nil && f.MaxSeg > 0 {
		n = 1 + f.Rng.IntN(f.MaxSeg)
	}
	if n > left {
		n = left
	}
	if n > len(p) {
		n = len(p)
	}
	if n < 1 {
		n = 1
	}
	copy(p, f.Data[f.Pos:f.Pos+n])
	f.Pos += n
	f.Served += n
	if f.Pos == len(f.Data) && f.End == EndEOFWithData {
		return n, io.EOF
	}
	return n, nil
}

// FaultySink accepts bytes until a limit, then fails or writes short.
type FaultySink struct {
	FailAfter int  // <0: never; else total bytes accepted before every write fails
	Recover   bool // after the failing call the sink accepts everything again
	Short     bool // at the limit: return (n < len, io.ErrShortWrite) instead of an error of its own
	Got       []byte
	Calls     [][]byte
	Failed    bool
}

var ErrSink = errors.New("simio: sink failure")

func (s *FaultySink) Write(p []byte) (int, error) {
	if s.FailAfter < 0 || len(s.Got)+len(p) <= s.FailAfter {
		s.Got = append(s.Got, p...)
		s.Calls = append(s.Calls, append([]byte(nil), p...))
		return len(p), nil
	}
	room := s.FailAfter - len(s.Got)
	if room < 0 {
		room = 0
	}
	s.Got = append(s.Got, p[:room]...)
	s.Calls = append(s.Calls, append([]byte(nil), p[:room]...))
	s.Failed = true
	if s.Recover {
		s.FailAfter = -1
	}
	if s.Short {
		return room, io.ErrShortWrite
	}
	return room, ErrSink
}
