// Package refproto is an independent implementation of the parts of the
// ClickHouse native protocol the simulation needs. It imports nothing from
// ch-go. Written from the upstream protocol definition (ProtocolDefines.h,
// Connection.cpp, TCPHandler.cpp, NativeWriter/NativeReader,
// CompressedWriteBuffer). See DESIGN.md 6.3.
package refproto

import (
	"encoding/binary"
	"errors"
	"fmt"
	"math"
)

// ErrShort means the input ended before the value was complete: more bytes
// may make it parse. Every other error is a malformed stream.
var ErrShort = errors.New("refproto: need more bytes")

// W is an append-only encoder.
type W struct{ B []byte }

func (w *W) Byte(b byte)      { w.B = append(w.B, b) }
func (w *W) Raw(b []byte)     { w.B = append(w.B, b...) }
func (w *W) UVarint(v uint64) { w.B = binary.AppendUvarint(w.B, v) }
func (w *W) Str(s string) {
	w.UVarint(uint64(len(s)))
	w.B = append(w.B, s...)
}
func (w *W) Bool(v bool) {
	if v {
		w.Byte(1)
	} else {
		w.Byte(0)
	}
}
func (w *W) U16(v uint16) { w.B = binary.LittleEndian.AppendUint16(w.B, v) }
func (w *W) U32(v uint32) { w.B = binary.LittleEndian.AppendUint32(w.B, v) }
func (w *W) U64(v uint64) { w.B = binary.LittleEndian.AppendUint64(w.B, v) }
func (w *W) I32(v int32)  { w.U32(uint32(v)) }
func (w *W) I64(v int64)  { w.U64(uint64(v)) }

// Field is one primitive value located by a traced parse.
type Field struct {
	Off, Len int
	Kind     string // uvarint | strlen | u64 | u32 | u16 | byte | raw
}

// R is a decoder over a byte slice. When Trace is set every primitive read
// is recorded with its extent, which is how the fault injector finds the
// count / length / offset / key / meta / flag fields of a valid encoding.
type R struct {
	B        []byte
	Pos      int
	Trace    *[]Field
	inVarint bool
}

func (r *R) note(off int, kind string) {
	if r.Trace != nil {
		*r.Trace = append(*r.Trace, Field{Off: off, Len: r.Pos - off, Kind: kind})
	}
}

func (r *R) Left() int { return len(r.B) - r.Pos }

func (r *R) Byte() (byte, error) {
	if r.Pos >= len(r.B) {
		return 0, ErrShort
	}
	b := r.B[r.Pos]
	r.Pos++
	if !r.inVarint {
		r.note(r.Pos-1, "byte")
	}
	return b, nil
}

func (r *R) Raw(n int) ([]byte, error) {
	if n < 0 {
		return nil, fmt.Errorf("refproto: negative length %d", n)
	}
	if r.Left() < n {
		return nil, ErrShort
	}
	b := r.B[r.Pos : r.Pos+n]
	r.Pos += n
	return b, nil
}

func (r *R) UVarint() (uint64, error) {
	start := r.Pos
	r.inVarint = true
	v, err := r.uvarint()
	r.inVarint = false
	if err == nil {
		r.note(start, "uvarint")
	}
	return v, err
}

func (r *R) uvarint() (uint64, error) {
	var x uint64
	var s uint
	for i := 0; ; i++ {
		b, err := r.Byte()
		if err != nil {
			return 0, err
		}
		if i == 9 && b > 1 {
			return 0, errors.New("refproto: uvarint overflows 64 bits")
		}
		if b < 0x80 {
			return x | uint64(b)<<s, nil
		}
		x |= uint64(b&0x7f) << s
		s += 7
		if i >= 9 {
			return 0, errors.New("refproto: uvarint too long")
		}
	}
}

func (r *R) Str() (string, error) {
	n, err := r.UVarint()
	if err != nil {
		return "", err
	}
	if n > math.MaxInt32 {
		return "", fmt.Errorf("refproto: string length %d", n)
	}
	b, err := r.Raw(int(n))
	if err != nil {
		return "", err
	}
	return string(b), nil
}

func (r *R) Bool() (bool, error) {
	b, err := r.Byte()
	if err != nil {
		return false, err
	}
	switch b {
	case 0:
		return false, nil
	case 1:
		return true, nil
	}
	return false, fmt.Errorf("refproto: bool byte %d", b)
}

func (r *R) U16() (uint16, error) {
	b, err := r.Raw(2)
	if err != nil {
		return 0, err
	}
	return binary.LittleEndian.Uint16(b), nil
}
func (r *R) U32() (uint32, error) {
	b, err := r.Raw(4)
	if err != nil {
		return 0, err
	}
	r.note(r.Pos-4, "u32")
	return binary.LittleEndian.Uint32(b), nil
}
func (r *R) U64() (uint64, error) {
	b, err := r.Raw(8)
	if err != nil {
		return 0, err
	}
	r.note(r.Pos-8, "u64")
	return binary.LittleEndian.Uint64(b), nil
}
func (r *R) I32() (int32, error) { v, err := r.U32(); return int32(v), err }
func (r *R) I64() (int64, error) { v, err := r.U64(); return int64(v), err }

// Revisions at which wire features appear (src/Core/ProtocolDefines.h). This
// table is the reference's own; it is deliberately not derived from ch-go.
const (
	RevTempTables                = 50264
	RevBlockInfo                 = 51903
	RevTimezone                  = 54058
	RevQuotaKeyInClientInfo      = 54060
	RevDisplayName               = 54372
	RevVersionPatch              = 54401
	RevServerLogs                = 54406
	RevClientWriteInfo           = 54420
	RevSettingsAsStrings         = 54429
	RevInterServerSecret         = 54441
	RevOpenTelemetry             = 54442
	RevXForwardedFor             = 54443
	RevReferer                   = 54447
	RevDistributedDepth          = 54448
	RevQueryStartTime            = 54449
	RevProfileEvents             = 54451
	RevParallelReplicas          = 54453
	RevCustomSerialization       = 54454
	RevQuotaKeyAddendum          = 54458
	RevParameters                = 54459
	RevServerQueryTimeInProgress = 54460
)

// Thresholds lists every revision at which the wire format changes, for the
// revision grids of C02/C13.
var Thresholds = []int{
	RevTempTables, RevBlockInfo, RevTimezone, RevQuotaKeyInClientInfo, RevDisplayName,
	RevVersionPatch, RevServerLogs, RevClientWriteInfo, RevSettingsAsStrings,
	RevInterServerSecret, RevOpenTelemetry, RevXForwardedFor, RevReferer, RevDistributedDepth,
	RevQueryStartTime, RevProfileEvents, RevParallelReplicas, RevCustomSerialization,
	RevQuotaKeyAddendum, RevParameters, RevServerQueryTimeInProgress,
}
