package refproto

import (
	"encoding/binary"
	"errors"
	"fmt"

	"github.com/go-faster/city"
	"github.com/klauspost/compress/zstd"
	"github.com/pierrec/lz4/v4"
)

// ---- compressed frames (CompressedWriteBuffer / CompressedReadBufferBase) ----

const (
	MethodNone = 0x02
	MethodLZ4  = 0x82
	MethodZSTD = 0x90
	frameHdr   = 16 + 1 + 4 + 4
	maxFrame   = 1 << 30
)

type Frame struct {
	Method     byte
	Payload    []byte
	WireLen    int
	ChecksumOK bool
	Stored     [16]byte
	Computed   [16]byte
}

func checksum(b []byte) [16]byte {
	h := city.CH128(b)
	var out [16]byte
	binary.LittleEndian.PutUint64(out[:8], h.Low)
	binary.LittleEndian.PutUint64(out[8:], h.High)
	return out
}

// Created at package initialisation, i.e. outside any synctest bubble: their
// internal channels must not belong to one bubble and be used from another.
var zdec *zstd.Decoder
var zenc *zstd.Encoder

func init() {
	var err error
	if zenc, err = zstd.NewWriter(nil, zstd.WithEncoderConcurrency(1)); err != nil {
		panic(err)
	}
	if zdec, err = zstd.NewReader(nil, zstd.WithDecoderConcurrency(1)); err != nil {
		panic(err)
	}
	// force the lazy creation of their internal channels now
	if _, err = zdec.DecodeAll(zenc.EncodeAll([]byte("warm"), nil), nil); err != nil {
		panic(err)
	}
}

// EncodeFrame compresses payload into one checksummed frame.
func EncodeFrame(method byte, payload []byte) ([]byte, error) {
	var body []byte
	switch method {
	case MethodNone:
		body = payload
	case MethodLZ4:
		body = make([]byte, lz4.CompressBlockBound(len(payload)))
		var c lz4.Compressor
		n, err := c.CompressBlock(payload, body)
		if err != nil {
			return nil, err
		}
		if n == 0 && len(payload) > 0 {
			// incompressible: lz4 block made of literals only
			body = lz4Literals(payload)
		} else {
			body = body[:n]
		}
	case MethodZSTD:
		if zenc == nil {
			var err error
			zenc, err = zstd.NewWriter(nil, zstd.WithEncoderConcurrency(1))
			if err != nil {
				return nil, err
			}
		}
		body = zenc.EncodeAll(payload, nil)
	default:
		return nil, fmt.Errorf("refproto: method %#x", method)
	}
	out := make([]byte, frameHdr, frameHdr+len(body))
	out[16] = method
	binary.LittleEndian.PutUint32(out[17:], uint32(len(body)+9))
	binary.LittleEndian.PutUint32(out[21:], uint32(len(payload)))
	out = append(out, body...)
	sum := checksum(out[16:])
	copy(out[:16], sum[:])
	return out, nil
}

// EncodeFrameZstd compresses payload into one ZSTD frame with an encoder of
// the caller's making (level, window, single segment): what other writers of
// the format than the library's own may produce.
func EncodeFrameZstd(payload []byte, opts ...zstd.EOption) ([]byte, error) {
	enc, err := zstd.NewWriter(nil, append([]zstd.EOption{zstd.WithEncoderConcurrency(1)}, opts...)...)
	if err != nil {
		return nil, err
	}
	defer enc.Close()
	return RawFrame(MethodZSTD, enc.EncodeAll(payload, nil), uint32(len(payload))), nil
}

// RawFrame builds a frame with a correct checksum around an arbitrary body: the
// envelope is honest, the codec stream inside need not be.
func RawFrame(method byte, body []byte, dataSize uint32) []byte {
	out := make([]byte, frameHdr, frameHdr+len(body))
	out[16] = method
	binary.LittleEndian.PutUint32(out[17:], uint32(len(body)+9))
	binary.LittleEndian.PutUint32(out[21:], dataSize)
	out = append(out, body...)
	sum := checksum(out[16:])
	copy(out[:16], sum[:])
	return out
}

// lz4Literals encodes data as a single literal-only LZ4 sequence.
func lz4Literals(p []byte) []byte {
	var out []byte
	n := len(p)
	if n < 15 {
		out = append(out, byte(n<<4))
	} else {
		out = append(out, 0xf0)
		rest := n - 15
		for rest >= 255 {
			out = append(out, 255)
			rest -= 255
		}
		out = append(out, byte(rest))
	}
	return append(out, p...)
}

// DecodeFrame parses one frame at r. A checksum mismatch is reported in the
// returned frame (ChecksumOK=false, payload nil), not as an error, so that
// oracles can tell "damaged" from "malformed".
func DecodeFrame(r *R) (*Frame, error) {
	start := r.Pos
	hdr, err := r.Raw(frameHdr)
	if err != nil {
		r.Pos = start
		return nil, err
	}
	f := &Frame{Method: hdr[16]}
	copy(f.Stored[:], hdr[:16])
	raw := int(binary.LittleEndian.Uint32(hdr[17:])) - 9
	dataSize := int(binary.LittleEndian.Uint32(hdr[21:]))
	if raw < 0 || raw > maxFrame || dataSize > maxFrame {
		return nil, fmt.Errorf("refproto: frame sizes %d/%d", raw, dataSize)
	}
	body, err := r.Raw(raw)
	if err != nil {
		r.Pos = start
		return nil, err
	}
	f.WireLen = frameHdr + raw
	f.Computed = checksum(r.B[start+16 : start+frameHdr+raw])
	f.ChecksumOK = f.Computed == f.Stored
	if !f.ChecksumOK {
		return f, nil
	}
	switch f.Method {
	case MethodNone:
		if raw != dataSize {
			return nil, fmt.Errorf("refproto: uncompressed frame %d != %d", raw, dataSize)
		}
		f.Payload = append([]byte(nil), body...)
	case MethodLZ4:
		f.Payload = make([]byte, dataSize)
		n, err := lz4.UncompressBlock(body, f.Payload)
		if err != nil {
			return nil, fmt.Errorf("refproto: lz4: %w", err)
		}
		if n != dataSize {
			return nil, fmt.Errorf("refproto: lz4 size %d != %d", n, dataSize)
		}
	case MethodZSTD:
		if zdec == nil {
			zdec, err = zstd.NewReader(nil, zstd.WithDecoderConcurrency(1))
			if err != nil {
				return nil, err
			}
		}
		p, err := zdec.DecodeAll(body, nil)
		if err != nil {
			return nil, fmt.Errorf("refproto: zstd: %w", err)
		}
		if len(p) != dataSize {
			return nil, fmt.Errorf("refproto: zstd size %d != %d", len(p), dataSize)
		}
		f.Payload = p
	default:
		return nil, fmt.Errorf("refproto: frame method %#x", f.Method)
	}
	return f, nil
}

// ---- client -> server ----

type PacketKind int

const (
	PHello PacketKind = iota
	PAddendum
	PQuery
	PData
	PCancel
	PPing
)

func (k PacketKind) String() string {
	return [...]string{"Hello", "Addendum", "Query", "Data", "Cancel", "Ping"}[k]
}

type Setting struct {
	Key, Value string
	Flags      uint64
}

type ClientInfo struct {
	QueryKind      byte
	InitialUser    string
	InitialQueryID string
	InitialAddress string
	InitialTime    int64
	Interface      byte
	OSUser         string
	Hostname       string
	ClientName     string
	Major, Minor   uint64
	Revision       uint64
	QuotaKey       string
	DistDepth      uint64
	Patch          uint64
	HasTrace       bool
	TraceID        [16]byte // textual (big-endian) order
	SpanID         [8]byte
	TraceState     string
	TraceFlags     byte
	Collaborate    uint64
	ReplicaCount   uint64
	ReplicaNum     uint64
}

type ClientPacket struct {
	Kind     PacketKind
	Off, End int // byte extent in the client stream

	// Hello
	Name                     string
	Major, Minor, Revision   uint64
	Database, User, Password string
	// Addendum
	QuotaKey string
	// Query
	QueryID     string
	Info        *ClientInfo
	Settings    []Setting
	Secret      string
	Stage       uint64
	Compression uint64
	Body        string
	Params      []Setting
	// Data
	Table      string
	Block      *Block
	Compressed bool
	Frames     int
	FrameMeth  byte
}

// ClientParser consumes the client->server stream incrementally.
type ClientParser struct {
	ServerRev int // the revision the server itself runs
	Rev       int // negotiated; set after Hello
	Pos       int
	Compress  bool // compression flag of the last Query packet
	state     int  // 0 expect hello, 1 expect addendum (maybe), 2 packets
	HelloSent bool // server hello was sent, so the addendum may arrive
	Err       error
}

// Next parses one packet from stream[p.Pos:]. It returns (nil, nil) when more
// bytes are needed. A malformed stream sets p.Err and returns it.
func (p *ClientParser) Next(stream []byte) (*ClientPacket, error) {
	if p.Err != nil {
		return nil, p.Err
	}
	if p.Pos >= len(stream) {
		return nil, nil
	}
	r := &R{B: stream, Pos: p.Pos}
	pkt, err := p.parse(r)
	if errors.Is(err, ErrShort) {
		return nil, nil
	}
	if err != nil {
		p.Err = fmt.Errorf("client stream offset %d: %w", p.Pos, err)
		return nil, p.Err
	}
	pkt.Off, pkt.End = p.Pos, r.Pos
	p.Pos = r.Pos
	return pkt, nil
}

func (p *ClientParser) parse(r *R) (*ClientPacket, error) {
	if p.state == 1 {
		// after the server hello, revisions with the addendum send the quota key
		p.state = 2
		if p.Rev >= RevQuotaKeyAddendum {
			s, err := r.Str()
			if err != nil {
				p.state = 1
				return nil, err
			}
			return &ClientPacket{Kind: PAddendum, QuotaKey: s}, nil
		}
	}
	code, err := r.UVarint()
	if err != nil {
		return nil, err
	}
	if p.state == 0 {
		if code != 0 {
			return nil, fmt.Errorf("first packet has code %d, expected Hello", code)
		}
		pkt := &ClientPacket{Kind: PHello}
		if pkt.Name, err = r.Str(); err != nil {
			return nil, err
		}
		if pkt.Major, err = r.UVarint(); err != nil {
			return nil, err
		}
		if pkt.Minor, err = r.UVarint(); err != nil {
			return nil, err
		}
		if pkt.Revision, err = r.UVarint(); err != nil {
			return nil, err
		}
		if pkt.Database, err = r.Str(); err != nil {
			return nil, err
		}
		if pkt.User, err = r.Str(); err != nil {
			return nil, err
		}
		if pkt.Password, err = r.Str(); err != nil {
			return nil, err
		}
		p.Rev = min(int(pkt.Revision), p.ServerRev)
		p.state = 1
		return pkt, nil
	}
	switch code {
	case 1:
		return p.parseQuery(r)
	case 2:
		return p.parseData(r)
	case 3:
		return &ClientPacket{Kind: PCancel}, nil
	case 4:
		return &ClientPacket{Kind: PPing}, nil
	case 0:
		return nil, fmt.Errorf("second Hello")
	}
	return nil, fmt.Errorf("unknown client packet code %d", code)
}

func (p *ClientParser) parseSettings(r *R) ([]Setting, error) {
	var out []Setting
	for {
		k, err := r.Str()
		if err != nil {
			return nil, err
		}
		if k == "" {
			return out, nil
		}
		s := Setting{Key: k}
		if s.Flags, err = r.UVarint(); err != nil {
			return nil, err
		}
		if s.Value, err = r.Str(); err != nil {
			return nil, err
		}
		out = append(out, s)
	}
}

func (p *ClientParser) parseQuery(r *R) (*ClientPacket, error) {
	rev := p.Rev
	pkt := &ClientPacket{Kind: PQuery}
	var err error
	if pkt.QueryID, err = r.Str(); err != nil {
		return nil, err
	}
	if rev >= RevClientWriteInfo {
		ci := &ClientInfo{}
		pkt.Info = ci
		if ci.QueryKind, err = r.Byte(); err != nil {
			return nil, err
		}
		if ci.QueryKind != 0 {
			if ci.InitialUser, err = r.Str(); err != nil {
				return nil, err
			}
			if ci.InitialQueryID, err = r.Str(); err != nil {
				return nil, err
			}
			if ci.InitialAddress, err = r.Str(); err != nil {
				return nil, err
			}
			if rev >= RevQueryStartTime {
				if ci.InitialTime, err = r.I64(); err != nil {
					return nil, err
				}
			}
			if ci.Interface, err = r.Byte(); err != nil {
				return nil, err
			}
			if ci.Interface != 1 {
				return nil, fmt.Errorf("client info interface %d, expected TCP", ci.Interface)
			}
			if ci.OSUser, err = r.Str(); err != nil {
				return nil, err
			}
			if ci.Hostname, err = r.Str(); err != nil {
				return nil, err
			}
			if ci.ClientName, err = r.Str(); err != nil {
				return nil, err
			}
			if ci.Major, err = r.UVarint(); err != nil {
				return nil, err
			}
			if ci.Minor, err = r.UVarint(); err != nil {
				return nil, err
			}
			if ci.Revision, err = r.UVarint(); err != nil {
				return nil, err
			}
			if rev >= RevQuotaKeyInClientInfo {
				if ci.QuotaKey, err = r.Str(); err != nil {
					return nil, err
				}
			}
			if rev >= RevDistributedDepth {
				if ci.DistDepth, err = r.UVarint(); err != nil {
					return nil, err
				}
			}
			if rev >= RevVersionPatch {
				if ci.Patch, err = r.UVarint(); err != nil {
					return nil, err
				}
			}
			if rev >= RevOpenTelemetry {
				has, err := r.Byte()
				if err != nil {
					return nil, err
				}
				if has > 1 {
					return nil, fmt.Errorf("opentelemetry marker %d", has)
				}
				if has == 1 {
					ci.HasTrace = true
					b, err := r.Raw(16)
					if err != nil {
						return nil, err
					}
					copy(ci.TraceID[:], uuidWire(string(b)))
					b, err = r.Raw(8)
					if err != nil {
						return nil, err
					}
					for i := 0; i < 8; i++ {
						ci.SpanID[i] = b[7-i]
					}
					if ci.TraceState, err = r.Str(); err != nil {
						return nil, err
					}
					if ci.TraceFlags, err = r.Byte(); err != nil {
						return nil, err
					}
				}
			}
			if rev >= RevParallelReplicas {
				if ci.Collaborate, err = r.UVarint(); err != nil {
					return nil, err
				}
				if ci.ReplicaCount, err = r.UVarint(); err != nil {
					return nil, err
				}
				if ci.ReplicaNum, err = r.UVarint(); err != nil {
					return nil, err
				}
			}
		}
	}
	if rev < RevSettingsAsStrings-1 {
		return nil, fmt.Errorf("revision %d: binary settings format not implemented by the reference", rev)
	}
	if rev < RevSettingsAsStrings {
		// the binary settings format; all of it the reference knows is its empty
		// list, which is the terminator alone. Settings written as strings do
		// not exist at this revision
		name, err := r.Str()
		if err != nil {
			return nil, err
		}
		if name != "" {
			return nil, fmt.Errorf("revision %d does not define settings serialised as strings, the Query packet carries one named %q", rev, name)
		}
	} else if pkt.Settings, err = p.parseSettings(r); err != nil {
		return nil, err
	}
	if rev >= RevInterServerSecret {
		if pkt.Secret, err = r.Str(); err != nil {
			return nil, err
		}
	}
	if pkt.Stage, err = r.UVarint(); err != nil {
		return nil, err
	}
	if pkt.Compression, err = r.UVarint(); err != nil {
		return nil, err
	}
	if pkt.Compression > 1 {
		return nil, fmt.Errorf("compression flag %d", pkt.Compression)
	}
	if pkt.Body, err = r.Str(); err != nil {
		return nil, err
	}
	if rev >= RevParameters {
		if pkt.Params, err = p.parseSettings(r); err != nil {
			return nil, err
		}
	}
	p.Compress = pkt.Compression == 1
	return pkt, nil
}

func (p *ClientParser) parseData(r *R) (*ClientPacket, error) {
	pkt := &ClientPacket{Kind: PData}
	var err error
	if p.Rev >= RevTempTables {
		if pkt.Table, err = r.Str(); err != nil {
			return nil, err
		}
	}
	if !p.Compress {
		if pkt.Block, err = DecodeBlock(r, p.Rev); err != nil {
			return nil, err
		}
		return pkt, nil
	}
	pkt.Compressed = true
	// The block is the concatenation of the payloads of one or more frames;
	// read frames until the payload parses as a complete block.
	var payload []byte
	for {
		f, err := DecodeFrame(r)
		if err != nil {
			return nil, err
		}
		if !f.ChecksumOK {
			return nil, fmt.Errorf("data frame checksum mismatch")
		}
		pkt.Frames++
		pkt.FrameMeth = f.Method
		payload = append(payload, f.Payload...)
		br := &R{B: payload}
		b, err := DecodeBlock(br, p.Rev)
		if errors.Is(err, ErrShort) {
			continue
		}
		if err != nil {
			return nil, err
		}
		if br.Left() != 0 {
			return nil, fmt.Errorf("%d bytes after the block inside its frame", br.Left())
		}
		pkt.Block = b
		return pkt, nil
	}
}

// ---- server -> client ----

type ServerHello struct {
	Name                   string
	Major, Minor, Revision int
	Timezone, DisplayName  string
	Patch                  int
}

// EncodeHello writes the server hello as a server does for a client that
// announced clientRev: the optional fields depend on the client's revision.
func EncodeHello(w *W, h ServerHello, clientRev int) {
	// a server older than a field does not know it either
	clientRev = min(clientRev, h.Revision)
	w.UVarint(0)
	w.Str(h.Name)
	w.UVarint(uint64(h.Major))
	w.UVarint(uint64(h.Minor))
	w.UVarint(uint64(h.Revision))
	if clientRev >= RevTimezone {
		w.Str(h.Timezone)
	}
	if clientRev >= RevDisplayName {
		w.Str(h.DisplayName)
	}
	if clientRev >= RevVersionPatch {
		w.UVarint(uint64(h.Patch))
	}
}

type Exception struct {
	Code                 int32
	Name, Message, Stack string
}

func EncodeException(w *W, chain []Exception) {
	w.UVarint(2)
	for i, e := range chain {
		w.I32(e.Code)
		w.Str(e.Name)
		w.Str(e.Message)
		w.Str(e.Stack)
		w.Bool(i+1 < len(chain))
	}
}

type Progress struct {
	Rows, Bytes, TotalRows, WroteRows, WroteBytes, ElapsedNs uint64
}

func EncodeProgress(w *W, p Progress, rev int) {
	w.UVarint(3)
	w.UVarint(p.Rows)
	w.UVarint(p.Bytes)
	w.UVarint(p.TotalRows)
	if rev >= RevClientWriteInfo {
		w.UVarint(p.WroteRows)
		w.UVarint(p.WroteBytes)
	}
	if rev >= RevServerQueryTimeInProgress {
		w.UVarint(p.ElapsedNs)
	}
}

type Profile struct {
	Rows, Blocks, Bytes uint64
	AppliedLimit        bool
	RowsBeforeLimit     uint64
	CalcRowsBeforeLimit bool
}

func EncodeProfile(w *W, p Profile) {
	w.UVarint(6)
	w.UVarint(p.Rows)
	w.UVarint(p.Blocks)
	w.UVarint(p.Bytes)
	w.Bool(p.AppliedLimit)
	w.UVarint(p.RowsBeforeLimit)
	w.Bool(p.CalcRowsBeforeLimit)
}

func EncodePong(w *W)        { w.UVarint(4) }
func EncodeEndOfStream(w *W) { w.UVarint(5) }

func EncodeTableColumns(w *W, a, b string) {
	w.UVarint(11)
	w.Str(a)
	w.Str(b)
}

// Server packet codes that carry a block.
const (
	CodeData          = 1
	CodeTotals        = 7
	CodeExtremes      = 8
	CodeLog           = 10
	CodeProfileEvents = 14
)

// EncodeBlockPacket writes code, temp table name and the block; Data, Totals
// and Extremes are compressed (one frame) when method != 0.
func EncodeBlockPacket(w *W, code int, b *Block, rev int, method byte) error {
	w.UVarint(uint64(code))
	if rev >= RevTempTables {
		w.Str("")
	}
	compressible := code == CodeData || code == CodeTotals || code == CodeExtremes
	if method == 0 || !compressible {
		return EncodeBlock(w, rev, b)
	}
	var inner W
	if err := EncodeBlock(&inner, rev, b); err != nil {
		return err
	}
	// A server emits a frame whenever its compression buffer fills, wherever
	// that falls in the block: FrameChunk > 0 splits the payload that way.
	payload := inner.B
	for first := true; first || len(payload) > 0; first = false {
		n := len(payload)
		if FrameChunk > 0 && n > FrameChunk {
			n = FrameChunk
		}
		f, err := EncodeFrame(method, payload[:n])
		if err != nil {
			return err
		}
		w.Raw(f)
		payload = payload[n:]
	}
	return nil
}

// FrameChunk is the maximum payload per compressed frame the reference server
// produces (0: one frame per block). Set per scenario by the generators.
var FrameChunk int
