package refproto

import (
	"encoding/binary"
	"fmt"
	"strconv"
	"strings"
)

// Value model (DESIGN 6.3/6.4). Column values are plain Go values:
//
//	signed ints (Int8..64, Date32, DateTime64, Decimal32/64, Enum8/16, Interval*) -> int64
//	unsigned ints (UInt8..64, Date, DateTime, IPv4)                              -> uint64
//	Float32 / Float64                                                             -> F32 / F64 (bit patterns)
//	String, FixedString(n), IPv6 (16 raw bytes), UUID (16 bytes, textual order)  -> string
//	Int128/UInt128/Int256/UInt256/Decimal128/256                                  -> Wide (little-endian bytes)
//	Bool                                                                          -> bool
//	Nothing                                                                       -> Nothing{}
//	Nullable(T)                                                                   -> nil | T
//	Array(T)                                                                      -> []any
//	Tuple(A,B,..), Point                                                          -> Tup
//	Map(K,V)                                                                      -> MapV (ordered pairs)
//	LowCardinality(T)                                                             -> T
type (
	F32     uint32
	F64     uint64
	Wide    string
	Nothing struct{}
	Tup     []any
	KV      struct{ K, V any }
	MapV    []KV
)

type Kind int

const (
	KInt Kind = iota
	KUInt
	KF32
	KF64
	KString
	KFixed // FixedString(n), IPv6
	KUUID
	KWide
	KBool
	KNothing
	KNullable
	KArray
	KTuple
	KMap
	KLowCard
)

type Type struct {
	Name  string // as written on the wire
	Kind  Kind
	Size  int // byte width for ints / wide / fixed
	Elems []*Type
	Enum  []EnumDef // Enum8/Enum16: the defined values, in order of definition
}

// EnumDef is one 'name' = value element of an enum type.
type EnumDef struct {
	Name string
	Val  int64
}

func parseEnum(args string) ([]EnumDef, error) {
	var out []EnumDef
	for _, p := range splitTop(args) {
		q := strings.LastIndexByte(p, '=')
		if q < 0 {
			return nil, fmt.Errorf("refproto: enum element %q", p)
		}
		name := strings.TrimSpace(p[:q])
		if len(name) < 2 || name[0] != '\'' || name[len(name)-1] != '\'' {
			return nil, fmt.Errorf("refproto: enum name %q", name)
		}
		v, err := strconv.ParseInt(strings.TrimSpace(p[q+1:]), 10, 64)
		if err != nil {
			return nil, err
		}
		out = append(out, EnumDef{Name: name[1 : len(name)-1], Val: v})
	}
	return out, nil
}

func splitTop(s string) []string {
	var out []string
	depth, start := 0, 0
	inq := false
	for i := 0; i < len(s); i++ {
		switch c := s[i]; {
		case c == '\'':
			inq = !inq
		case inq:
		case c == '(':
			depth++
		case c == ')':
			depth--
		case c == ',' && depth == 0:
			out = append(out, strings.TrimSpace(s[start:i]))
			start = i + 1
		}
	}
	out = append(out, strings.TrimSpace(s[start:]))
	return out
}

// ParseType understands the type grammar of DESIGN 6.4.
func ParseType(name string) (*Type, error) {
	t := &Type{Name: name}
	base, args := name, ""
	if i := strings.IndexByte(name, '('); i > 0 && strings.HasSuffix(name, ")") {
		base, args = name[:i], name[i+1:len(name)-1]
	}
	sub := func(n int) error {
		parts := splitTop(args)
		if n > 0 && len(parts) != n {
			return fmt.Errorf("refproto: %s: %d arguments", name, len(parts))
		}
		for _, p := range parts {
			// named tuple elements: "a Int32"
			if sp := strings.IndexByte(p, ' '); sp > 0 && !strings.Contains(p[:sp], "(") {
				if _, err := ParseType(p); err != nil {
					p = strings.TrimSpace(p[sp+1:])
				}
			}
			e, err := ParseType(p)
			if err != nil {
				return err
			}
			t.Elems = append(t.Elems, e)
		}
		return nil
	}
	switch base {
	case "Int8", "Int16", "Int32", "Int64":
		t.Kind = KInt
		n, _ := strconv.Atoi(base[3:])
		t.Size = n / 8
	case "UInt8", "UInt16", "UInt32", "UInt64":
		t.Kind = KUInt
		n, _ := strconv.Atoi(base[4:])
		t.Size = n / 8
	case "Int128", "UInt128", "Decimal128":
		t.Kind, t.Size = KWide, 16
	case "Int256", "UInt256", "Decimal256":
		t.Kind, t.Size = KWide, 32
	case "Float32":
		t.Kind, t.Size = KF32, 4
	case "Float64":
		t.Kind, t.Size = KF64, 8
	case "String":
		t.Kind = KString
	case "JSON":
		// the string serialisation of the JSON (Object) type: a String column with a
		// state prefix that announces serialisation version 1
		t.Kind = KString
	case "FixedString":
		n, err := strconv.Atoi(strings.TrimSpace(args))
		if err != nil || n <= 0 {
			return nil, fmt.Errorf("refproto: bad type %q", name)
		}
		t.Kind, t.Size = KFixed, n
	case "IPv6":
		t.Kind, t.Size = KFixed, 16
	case "UUID":
		t.Kind, t.Size = KUUID, 16
	case "Bool":
		t.Kind, t.Size = KBool, 1
	case "Nothing":
		t.Kind, t.Size = KNothing, 1
	case "Date":
		t.Kind, t.Size = KUInt, 2
	case "Date32":
		t.Kind, t.Size = KInt, 4
	case "DateTime":
		t.Kind, t.Size = KUInt, 4
	case "DateTime64":
		t.Kind, t.Size = KInt, 8
	case "IPv4":
		t.Kind, t.Size = KUInt, 4
	case "Decimal32":
		t.Kind, t.Size = KInt, 4
	case "Decimal64":
		t.Kind, t.Size = KInt, 8
	case "Decimal":
		p, err := strconv.Atoi(strings.TrimSpace(splitTop(args)[0]))
		if err != nil {
			return nil, fmt.Errorf("refproto: bad type %q", name)
		}
		switch {
		case p < 10:
			t.Kind, t.Size = KInt, 4
		case p < 19:
			t.Kind, t.Size = KInt, 8
		case p < 39:
			t.Kind, t.Size = KWide, 16
		default:
			t.Kind, t.Size = KWide, 32
		}
	case "Enum8", "Enum16":
		t.Kind, t.Size = KInt, 1
		if base == "Enum16" {
			t.Size = 2
		}
		defs, err := parseEnum(args)
		if err != nil {
			return nil, err
		}
		t.Enum = defs
	case "Point":
		t.Kind = KTuple
		f, _ := ParseType("Float64")
		t.Elems = []*Type{f, f}
	case "Nullable":
		t.Kind = KNullable
		if err := sub(1); err != nil {
			return nil, err
		}
	case "Array":
		t.Kind = KArray
		if err := sub(1); err != nil {
			return nil, err
		}
	case "LowCardinality":
		t.Kind = KLowCard
		if err := sub(1); err != nil {
			return nil, err
		}
	case "Tuple":
		t.Kind = KTuple
		if err := sub(0); err != nil {
			return nil, err
		}
	case "Map":
		t.Kind = KMap
		if err := sub(2); err != nil {
			return nil, err
		}
	default:
		if strings.HasPrefix(base, "Interval") {
			t.Kind, t.Size = KInt, 8
			break
		}
		return nil, fmt.Errorf("refproto: unsupported type %q", name)
	}
	return t, nil
}

// ---- state prefix ----

// EncodePrefix writes the serialization state prefix of a column tree.
func EncodePrefix(w *W, t *Type) {
	if t.Name == "JSON" {
		w.U64(1)
		return
	}
	switch t.Kind {
	case KLowCard:
		w.I64(1) // SharedDictionariesWithAdditionalKeys
		EncodePrefix(w, t.Elems[0])
	case KNullable, KArray:
		EncodePrefix(w, t.Elems[0])
	case KTuple, KMap:
		for _, e := range t.Elems {
			EncodePrefix(w, e)
		}
	}
}

func DecodePrefix(r *R, t *Type) error {
	if t.Name == "JSON" {
		v, err := r.U64()
		if err != nil {
			return err
		}
		if v != 1 {
			return fmt.Errorf("refproto: JSON string serialization version %d", v)
		}
		return nil
	}
	switch t.Kind {
	case KLowCard:
		v, err := r.I64()
		if err != nil {
			return err
		}
		if v != 1 {
			return fmt.Errorf("refproto: LowCardinality serialization version %d", v)
		}
		return DecodePrefix(r, t.Elems[0])
	case KNullable, KArray:
		return DecodePrefix(r, t.Elems[0])
	case KTuple, KMap:
		for _, e := range t.Elems {
			if err := DecodePrefix(r, e); err != nil {
				return err
			}
		}
	}
	return nil
}

// LCKeyWidth, when larger than what a dictionary needs, makes the reference
// encoder use that key type (1: UInt16, 2: UInt32, 3: UInt64) for
// LowCardinality columns. Set per scenario by the generators.
var LCKeyWidth int

// ---- data ----

func uuidWire(s string) []byte {
	// two little-endian UInt64 halves
	b := make([]byte, 16)
	for i := 0; i < 8; i++ {
		b[i] = s[7-i]
		b[8+i] = s[15-i]
	}
	return b
}

// Zero is the default value of a type (placeholder under NULL).
func Zero(t *Type) any {
	switch t.Kind {
	case KInt:
		return int64(0)
	case KUInt:
		return uint64(0)
	case KF32:
		return F32(0)
	case KF64:
		return F64(0)
	case KString:
		return ""
	case KFixed, KUUID:
		return string(make([]byte, t.Size))
	case KWide:
		return Wide(make([]byte, t.Size))
	case KBool:
		return false
	case KNothing:
		return Nothing{}
	case KNullable:
		return nil
	case KArray:
		return []any{}
	case KTuple:
		var tu Tup
		for _, e := range t.Elems {
			tu = append(tu, Zero(e))
		}
		return tu
	case KMap:
		return MapV{}
	case KLowCard:
		return Zero(t.Elems[0])
	}
	panic("zero")
}

func putInt(w *W, size int, v uint64) {
	var b [8]byte
	binary.LittleEndian.PutUint64(b[:], v)
	w.Raw(b[:size])
}

// EncodeData writes the column data (without prefix) for the given values.
func EncodeData(w *W, t *Type, vals []any) error {
	switch t.Kind {
	case KInt:
		for _, v := range vals {
			x, ok := v.(int64)
			if !ok {
				return fmt.Errorf("refproto: %s: value %T", t.Name, v)
			}
			putInt(w, t.Size, uint64(x))
		}
	case KUInt:
		for _, v := range vals {
			x, ok := v.(uint64)
			if !ok {
				return fmt.Errorf("refproto: %s: value %T", t.Name, v)
			}
			putInt(w, t.Size, x)
		}
	case KF32:
		for _, v := range vals {
			w.U32(uint32(v.(F32)))
		}
	case KF64:
		for _, v := range vals {
			w.U64(uint64(v.(F64)))
		}
	case KString:
		for _, v := range vals {
			w.Str(v.(string))
		}
	case KFixed:
		for _, v := range vals {
			s := v.(string)
			if len(s) != t.Size {
				return fmt.Errorf("refproto: %s: value of length %d", t.Name, len(s))
			}
			w.Raw([]byte(s))
		}
	case KUUID:
		for _, v := range vals {
			w.Raw(uuidWire(v.(string)))
		}
	case KWide:
		for _, v := range vals {
			s := v.(Wide)
			if len(s) != t.Size {
				return fmt.Errorf("refproto: %s: value of length %d", t.Name, len(s))
			}
			w.Raw([]byte(s))
		}
	case KBool:
		for _, v := range vals {
			w.Bool(v.(bool))
		}
	case KNothing:
		for range vals {
			w.Byte(0)
		}
	case KNullable:
		inner := make([]any, len(vals))
		for i, v := range vals {
			if v == nil {
				w.Byte(1)
				inner[i] = Zero(t.Elems[0])
			} else {
				w.Byte(0)
				inner[i] = v
			}
		}
		return EncodeData(w, t.Elems[0], inner)
	case KArray:
		var flat []any
		var off uint64
		for _, v := range vals {
			a := v.([]any)
			off += uint64(len(a))
			w.U64(off)
			flat = append(flat, a...)
		}
		return EncodeData(w, t.Elems[0], flat)
	case KTuple:
		for i, e := range t.Elems {
			col := make([]any, len(vals))
			for j, v := range vals {
				col[j] = v.(Tup)[i]
			}
			if err := EncodeData(w, e, col); err != nil {
				return err
			}
		}
	case KMap:
		var ks, vs []any
		var off uint64
		for _, v := range vals {
			m := v.(MapV)
			off += uint64(len(m))
			w.U64(off)
			for _, kv := range m {
				ks = append(ks, kv.K)
				vs = append(vs, kv.V)
			}
		}
		if err := EncodeData(w, t.Elems[0], ks); err != nil {
			return err
		}
		return EncodeData(w, t.Elems[1], vs)
	case KLowCard:
		if len(vals) == 0 {
			return nil
		}
		inner := t.Elems[0]
		dictT := inner
		var dict []any
		idx := map[any]int{}
		if inner.Kind == KNullable {
			dictT = inner.Elems[0]
			dict = append(dict, Zero(dictT)) // position 0 is NULL
		}
		keys := make([]uint64, len(vals))
		for i, v := range vals {
			if v == nil {
				keys[i] = 0
				continue
			}
			k, ok := idx[v]
			if !ok {
				k = len(dict)
				idx[v] = k
				dict = append(dict, v)
			}
			keys[i] = uint64(k)
		}
		kt := 0
		switch n := len(dict); {
		case n <= 1<<8:
			kt = 0
		case n <= 1<<16:
			kt = 1
		default:
			kt = 2
		}
		// a server is free to use wider keys than the dictionary needs
		if LCKeyWidth > kt && LCKeyWidth <= 3 {
			kt = LCKeyWidth
		}
		w.I64(int64(kt) | 1<<9 | 1<<10) // HasAdditionalKeys | NeedUpdateDictionary
		w.I64(int64(len(dict)))
		if err := EncodeData(w, dictT, dict); err != nil {
			return err
		}
		w.I64(int64(len(keys)))
		for _, k := range keys {
			putInt(w, 1<<kt, k)
		}
	default:
		return fmt.Errorf("refproto: encode %s", t.Name)
	}
	return nil
}

func getInt(r *R, size int) (uint64, error) {
	b, err := r.Raw(size)
	if err != nil {
		return 0, err
	}
	r.note(r.Pos-size, "fixed")
	var buf [8]byte
	copy(buf[:], b)
	return binary.LittleEndian.Uint64(buf[:]), nil
}

const maxRows = 1<<31 - 1

// DecodeData reads `rows` values of type t.
func DecodeData(r *R, t *Type, rows int) ([]any, error) {
	if rows < 0 || rows > maxRows {
		return nil, fmt.Errorf("refproto: rows %d", rows)
	}
	out := make([]any, 0, min(rows, 1<<16))
	switch t.Kind {
	case KInt:
		for i := 0; i < rows; i++ {
			v, err := getInt(r, t.Size)
			if err != nil {
				return nil, err
			}
			sh := uint(64 - 8*t.Size)
			out = append(out, int64(v<<sh)>>sh)
		}
	case KUInt:
		for i := 0; i < rows; i++ {
			v, err := getInt(r, t.Size)
			if err != nil {
				return nil, err
			}
			out = append(out, v)
		}
	case KF32:
		for i := 0; i < rows; i++ {
			v, err := r.U32()
			if err != nil {
				return nil, err
			}
			out = append(out, F32(v))
		}
	case KF64:
		for i := 0; i < rows; i++ {
			v, err := r.U64()
			if err != nil {
				return nil, err
			}
			out = append(out, F64(v))
		}
	case KString:
		for i := 0; i < rows; i++ {
			s, err := r.Str()
			if err != nil {
				return nil, err
			}
			out = append(out, s)
		}
	case KFixed:
		for i := 0; i < rows; i++ {
			b, err := r.Raw(t.Size)
			if err != nil {
				return nil, err
			}
			out = append(out, string(b))
		}
	case KUUID:
		for i := 0; i < rows; i++ {
			b, err := r.Raw(16)
			if err != nil {
				return nil, err
			}
			out = append(out, string(uuidWire(string(b))))
		}
	case KWide:
		for i := 0; i < rows; i++ {
			b, err := r.Raw(t.Size)
			if err != nil {
				return nil, err
			}
			out = append(out, Wide(b))
		}
	case KBool:
		for i := 0; i < rows; i++ {
			b, err := r.Byte()
			if err != nil {
				return nil, err
			}
			// ClickHouse reads any non-zero byte as true
			out = append(out, b != 0)
		}
	case KNothing:
		if _, err := r.Raw(rows); err != nil {
			return nil, err
		}
		for i := 0; i < rows; i++ {
			out = append(out, Nothing{})
		}
	case KNullable:
		mask, err := r.Raw(rows)
		if err != nil {
			return nil, err
		}
		mask = append([]byte(nil), mask...)
		inner, err := DecodeData(r, t.Elems[0], rows)
		if err != nil {
			return nil, err
		}
		for i := range inner {
			if mask[i] != 0 {
				out = append(out, nil)
			} else {
				out = append(out, inner[i])
			}
		}
	case KArray, KMap:
		offs := make([]uint64, rows)
		var prev uint64
		for i := range offs {
			v, err := r.U64()
			if err != nil {
				return nil, err
			}
			if v < prev || v > maxRows {
				return nil, fmt.Errorf("refproto: %s: offsets not monotonic (%d after %d)", t.Name, v, prev)
			}
			offs[i], prev = v, v
		}
		total := int(prev)
		if t.Kind == KArray {
			flat, err := DecodeData(r, t.Elems[0], total)
			if err != nil {
				return nil, err
			}
			p := uint64(0)
			for _, o := range offs {
				out = append(out, append([]any{}, flat[p:o]...))
				p = o
			}
		} else {
			ks, err := DecodeData(r, t.Elems[0], total)
			if err != nil {
				return nil, err
			}
			vs, err := DecodeData(r, t.Elems[1], total)
			if err != nil {
				return nil, err
			}
			p := uint64(0)
			for _, o := range offs {
				m := MapV{}
				for j := p; j < o; j++ {
					m = append(m, KV{ks[j], vs[j]})
				}
				out = append(out, m)
				p = o
			}
		}
	case KTuple:
		cols := make([][]any, len(t.Elems))
		for i, e := range t.Elems {
			c, err := DecodeData(r, e, rows)
			if err != nil {
				return nil, err
			}
			cols[i] = c
		}
		for j := 0; j < rows; j++ {
			tu := make(Tup, len(cols))
			for i := range cols {
				tu[i] = cols[i][j]
			}
			out = append(out, tu)
		}
	case KLowCard:
		if rows == 0 {
			return out, nil
		}
		meta, err := r.I64()
		if err != nil {
			return nil, err
		}
		kt := int(meta & 0xff)
		if kt > 3 {
			return nil, fmt.Errorf("refproto: LowCardinality key type %d", kt)
		}
		if meta&(1<<8) != 0 {
			return nil, fmt.Errorf("refproto: LowCardinality global dictionary not supported")
		}
		if meta&(1<<9) == 0 {
			return nil, fmt.Errorf("refproto: LowCardinality without additional keys")
		}
		n, err := r.I64()
		if err != nil {
			return nil, err
		}
		inner := t.Elems[0]
		dictT := inner
		if inner.Kind == KNullable {
			dictT = inner.Elems[0]
		}
		if n < 0 || n > maxRows {
			return nil, fmt.Errorf("refproto: LowCardinality dictionary size %d", n)
		}
		dict, err := DecodeData(r, dictT, int(n))
		if err != nil {
			return nil, err
		}
		kn, err := r.I64()
		if err != nil {
			return nil, err
		}
		if int(kn) != rows {
			return nil, fmt.Errorf("refproto: LowCardinality keys %d for %d rows", kn, rows)
		}
		for i := 0; i < rows; i++ {
			k, err := getInt(r, 1<<kt)
			if err != nil {
				return nil, err
			}
			if k >= uint64(len(dict)) {
				return nil, fmt.Errorf("refproto: LowCardinality key %d of %d", k, len(dict))
			}
			if inner.Kind == KNullable && k == 0 {
				out = append(out, nil)
			} else {
				out = append(out, dict[k])
			}
		}
	default:
		return nil, fmt.Errorf("refproto: decode %s", t.Name)
	}
	return out, nil
}

// ---- blocks ----

type Column struct {
	Name string
	Type string
	Vals []any
}

type Block struct {
	Overflows bool
	BucketNum int32
	Cols      []Column
	Rows      int
	// NumCols is used when Cols is empty (blank block = 0) or for header-only checks.
}

// EncodeBlock writes a native-format block as a server of the given revision does.
func EncodeBlock(w *W, rev int, b *Block) error {
	if rev >= RevBlockInfo {
		w.UVarint(1)
		w.Bool(b.Overflows)
		w.UVarint(2)
		w.I32(b.BucketNum)
		w.UVarint(0)
	}
	w.UVarint(uint64(len(b.Cols)))
	w.UVarint(uint64(b.Rows))
	for _, c := range b.Cols {
		if len(c.Vals) != b.Rows {
			return fmt.Errorf("refproto: column %q has %d values for %d rows", c.Name, len(c.Vals), b.Rows)
		}
		w.Str(c.Name)
		w.Str(c.Type)
		if rev >= RevCustomSerialization {
			w.Byte(0)
		}
		if b.Rows == 0 {
			continue
		}
		t, err := ParseType(c.Type)
		if err != nil {
			return err
		}
		EncodePrefix(w, t)
		if err := EncodeData(w, t, c.Vals); err != nil {
			return err
		}
	}
	return nil
}

// DecodeRawBlock parses a block without the block-info prelude.
func DecodeRawBlock(r *R, rev int) (*Block, error) { return decodeBlock(r, rev, false) }

// DecodeBlock parses a native-format block.
func DecodeBlock(r *R, rev int) (*Block, error) { return decodeBlock(r, rev, true) }

func decodeBlock(r *R, rev int, info bool) (*Block, error) {
	b := &Block{}
	if info && rev >= RevBlockInfo {
		for {
			f, err := r.UVarint()
			if err != nil {
				return nil, err
			}
			if f == 0 {
				break
			}
			switch f {
			case 1:
				v, err := r.Bool()
				if err != nil {
					return nil, err
				}
				b.Overflows = v
			case 2:
				v, err := r.I32()
				if err != nil {
					return nil, err
				}
				b.BucketNum = v
			default:
				return nil, fmt.Errorf("refproto: block info field %d", f)
			}
		}
	}
	nc, err := r.UVarint()
	if err != nil {
		return nil, err
	}
	nr, err := r.UVarint()
	if err != nil {
		return nil, err
	}
	if nc > 1<<20 || nr > maxRows {
		return nil, fmt.Errorf("refproto: block %d x %d", nc, nr)
	}
	b.Rows = int(nr)
	for i := 0; i < int(nc); i++ {
		var c Column
		if c.Name, err = r.Str(); err != nil {
			return nil, err
		}
		if c.Type, err = r.Str(); err != nil {
			return nil, err
		}
		if rev >= RevCustomSerialization {
			cs, err := r.Byte()
			if err != nil {
				return nil, err
			}
			if cs != 0 {
				return nil, fmt.Errorf("refproto: column %q: custom serialization flag %d", c.Name, cs)
			}
		}
		t, err := ParseType(c.Type)
		if err != nil {
			return nil, err
		}
		if b.Rows > 0 {
			if err := DecodePrefix(r, t); err != nil {
				return nil, err
			}
			if c.Vals, err = DecodeData(r, t, b.Rows); err != nil {
				return nil, err
			}
		} else {
			c.Vals = []any{}
		}
		b.Cols = append(b.Cols, c)
	}
	return b, nil
}
