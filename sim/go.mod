module chgosim

go 1.26

require (
	github.com/ClickHouse/ch-go v0.0.0
)
