// Package choice is the single source of every decision of a simulated run.
//
// Generate mode: values come from a PCG seeded with the run seed and are
// recorded. Replay mode: values come from a recorded list (0 once exhausted,
// reduced modulo n when out of range). Logging never draws.
package choice

import (
	"encoding/binary"
	"io"
	"strconv"
	"math/rand/v2"
)

// SplitMix derives independent seeds from (seed, stream ids...).
func SplitMix(seed uint64, ids ...uint64) uint64 {
	x := seed
	mix := func(z uint64) uint64 {
		z += 0x9e3779b97f4a7c15
		z = (z ^ (z >> 30)) * 0xbf58476d1ce4e5b9
		z = (z ^ (z >> 27)) * 0x94d049bb133111eb
		return z ^ (z >> 31)
	}
	x = mix(x)
	for _, id := range ids {
		x = mix(x ^ mix(id))
	}
	return x
}

// HashString gives a stable id for a label.
func HashString(s string) uint64 {
	var h uint64 = 14695981039346656037
	for i := 0; i < len(s); i++ {
		h ^= uint64(s[i])
		h *= 1099511628211
	}
	return h
}

type Stream struct {
	Seed       uint64
	rng        *rand.Rand
	replay     []uint64
	isRep      bool
	pos        int
	Rec        []uint64 // values handed out, in order
	Labels     []string // only kept when KeepLabels
	KeepLabels bool
	// Sink, when set, receives every value as it is handed out (one decimal per
	// line, unbuffered): the record survives a process that dies mid-run.
	Sink io.Writer
}

func New(seed uint64) *Stream {
	return &Stream{Seed: seed, rng: rand.New(rand.NewPCG(seed, seed^0xda3e39cb94b95bdb))}
}

func Replay(seed uint64, values []uint64) *Stream {
	return &Stream{Seed: seed, replay: values, isRep: true}
}

// Draw returns a value in [0, n). n < 1 is treated as 1.
func (s *Stream) Draw(label string, n int) int {
	if n < 1 {
		n = 1
	}
	var v uint64
	if s.isRep {
		if s.pos < len(s.replay) {
			v = s.replay[s.pos] % uint64(n)
		}
		s.pos++
	} else {
		if n > 1 {
			v = s.rng.Uint64N(uint64(n))
		}
	}
	s.Rec = append(s.Rec, v)
	if s.Sink != nil {
		_, _ = s.Sink.Write([]byte(strconv.FormatUint(v, 10) + "\n"))
	}
	if s.KeepLabels {
		s.Labels = append(s.Labels, label)
	}
	return int(v)
}

// Bool is true with probability num/den. Value 0 of the underlying draw means
// false, so that shrinking towards zero turns options off.
func (s *Stream) Bool(label string, num, den int) bool {
	if num <= 0 {
		s.Draw(label, 1)
		return false
	}
	v := s.Draw(label, den)
	return v >= den-num
}

// Range returns a value in [lo, hi].
func (s *Stream) Range(label string, lo, hi int) int {
	if hi < lo {
		hi = lo
	}
	return lo + s.Draw(label, hi-lo+1)
}

// Pick returns one of the given ints.
func (s *Stream) Pick(label string, vals ...int) int {
	return vals[s.Draw(label, len(vals))]
}

// Weighted returns index i with probability w[i]/sum(w).
func (s *Stream) Weighted(label string, w ...int) int {
	t := 0
	for _, x := range w {
		t += x
	}
	v := s.Draw(label, t)
	for i, x := range w {
		if v < x {
			return i
		}
		v -= x
	}
	return len(w) - 1
}

// Sub draws one value and returns a local generator for bulk data (string
// bytes, payloads) so that the recorded stream stays short.
func (s *Stream) Sub(label string) *rand.Rand {
	v := uint64(s.Draw(label, 1<<31-1))
	return rand.New(rand.NewPCG(v, 0x5851f42d4c957f2d))
}

// Bytes returns n pseudo-random bytes from a sub-generator.
func (s *Stream) Bytes(label string, n int) []byte {
	r := s.Sub(label)
	b := make([]byte, n+8)
	for i := 0; i < n; i += 8 {
		binary.LittleEndian.PutUint64(b[i:], r.Uint64())
	}
	return b[:n]
}

// Pos is the number of draws so far.
func (s *Stream) Pos() int { return len(s.Rec) }
