package props

import (
	"chgosim/sched"
	"context"
	"errors"
	"fmt"
	"sort"
	"testing"
	"time"

	"github.com/ClickHouse/ch-go"
	"github.com/ClickHouse/ch-go/proto"

	"chgosim/choice"
	"chgosim/refproto"
	"chgosim/simnet"
)

// c13Revs is one representative of every interval between consecutive
// feature revisions plus both neighbours of each boundary, within and above
// the supported window.
func c13Revs() (client []int, server []int) {
	seen := map[int]bool{}
	add := func(v int) {
		if v >= refproto.RevSettingsAsStrings-1 && !seen[v] {
			seen[v] = true
			server = append(server, v)
		}
	}
	for _, t := range refproto.Thresholds {
		add(t - 1)
		add(t)
		add(t + 1)
	}
	for _, v := range []int{54461, 54470, 54500} {
		add(v)
	}
	sort.Ints(server)
	for _, v := range server {
		if v <= 54460 {
			client = append(client, v)
		}
	}
	return
}

func init() {
	cl, sv := c13Revs()
	Register(&Prop{
		ID: "C13", Engine: "A", Quick: len(cl)*len(sv) + 6000, Thorough: 200000, Level: "exploration",
		Rule: fmt.Sprintf("the first %d runs enumerate every (client revision, server revision) pair over the threshold-neighbour grid (%d x %d) with an immediate hello; the remaining runs draw a pair and a response kind (hello, hello delayed by less than the handshake timeout, exception chain, other valid packet, undefined code, truncated hello then FIN, FIN, RST, stall until the handshake timeout, stall with an earlier context deadline), credentials strings, timeouts, Connect or Dial, delivery segmentation and schedule; after a successful handshake one query with telemetry is run and both directions are checked at the negotiated revision; distinct = schedule digests; non-trivial = a revision pair with client != server or a non-immediate response", len(cl)*len(sv), len(cl), len(sv)),
		Run:  runC13,
	})
}

func runC13(t *testing.T, c *choice.Stream, r *Result, opt RunOpt) {
	Bubble(t, c, r, opt, func(e *Env) func() {
		clRevs, svRevs := c13Revs()
		grid := len(clRevs) * len(svRevs)
		cf := &Conf{}
		kind := "hello"
		if r.Index < grid && opt.Tier != "thorough" {
			cf.ClientRev = clRevs[r.Index/len(svRevs)]
			cf.ServerRev = svRevs[r.Index%len(svRevs)]
			c.Draw("grid", 1)
		} else {
			cf.ClientRev = clRevs[c.Draw("rev.client", len(clRevs))]
			cf.ServerRev = svRevs[c.Draw("rev.server", len(svRevs))]
			kind = []string{"hello", "delayed", "exception", "other-packet", "bad-code", "truncated", "fin", "rst", "stall", "stall-ctx", "partial-stall"}[c.Weighted("resp", 3, 4, 2, 2, 1, 2, 1, 1, 2, 2, 3)]
		}
		cf.Comp = compMenu[c.Draw("comp", len(compMenu))]
		cf.ReadTimeout = []time.Duration{0, time.Second, 10 * time.Second}[c.Weighted("readtimeout", 3, 1, 1)]
		ht := []time.Duration{0, 10 * time.Second, time.Minute}[c.Weighted("hstimeout", 2, 1, 1)]
		effHT := ht
		if effHT == 0 {
			effHT = ch.DefaultHandshakeTimeout
		}
		cf.Hello = refproto.ServerHello{Name: drawText(c, "srv.name"), Major: c.Draw("srv.major", 40), Minor: c.Draw("srv.minor", 20), Revision: cf.ServerRev,
			Timezone: []string{"UTC", "", "Europe/Moscow"}[c.Draw("srv.tz", 3)], DisplayName: drawText(c, "srv.display"), Patch: c.Draw("srv.patch", 300)}
		cf.User = []string{"", "alice", "ключ"}[c.Draw("user", 3)]
		cf.Pass = drawText(c, "pass")
		cf.Database = []string{"", "db1", "база"}[c.Draw("db", 3)]
		cf.QuotaKey = drawText(c, "quota")
		cf.ClientName = []string{"", "sim/1.0"}[c.Draw("cname", 2)]
		useDial := c.Bool("dial", 1, 2)

		var hello refproto.W
		refproto.EncodeHello(&hello, cf.Hello, cf.ClientRev)
		nop := func(*refproto.ClientPacket) []byte { return nil }
		script := []simnet.Step{{Label: "client-hello", OnPacket: nop}}
		var delay time.Duration
		var ctxDeadline time.Duration
		var chain []refproto.Exception
		switch kind {
		case "hello":
			script = append(script, simnet.Step{Label: "hello", Send: hello.B})
		case "delayed":
			opts := []time.Duration{time.Second, 2900 * time.Millisecond, 3100 * time.Millisecond, 9 * time.Second, 30 * time.Second, effHT - time.Second}
			delay = opts[c.Draw("delay", len(opts))]
			if delay >= effHT {
				delay = effHT - time.Second
			}
			script = append(script, simnet.Step{Label: "hello", Send: hello.B, Delay: delay})
		case "exception":
			chain = DrawExceptionChain(c)
			script = append(script, simnet.Step{Label: "exception", Send: (&SPacket{Kind: "exception", Exc: chain}).Encode(cf)})
		case "other-packet":
			p := []*SPacket{{Kind: "pong"}, {Kind: "eos"}, {Kind: "progress", Prog: refproto.Progress{Rows: 1}}, {Kind: "tablecolumns", A: "a", B: "b"}}[c.Draw("other", 4)]
			script = append(script, simnet.Step{Label: "other:" + p.Kind, Send: p.Encode(cf)})
		case "bad-code":
			var w refproto.W
			w.UVarint(uint64(c.Pick("badcode", 15, 99, 127, 128, 300)))
			script = append(script, simnet.Step{Label: "bad-code", Send: w.B})
		case "truncated":
			k := 1 + c.Draw("trunc.k", len(hello.B)-1)
			script = append(script, simnet.Step{Label: "truncated-hello", Send: hello.B[:k], Fin: true})
		case "partial-stall":
			// the beginning of an answer (a hello or an exception), then silence without closing
			b := hello.B
			if c.Bool("partial.exc", 1, 3) {
				b = (&SPacket{Kind: "exception", Exc: DrawExceptionChain(c)}).Encode(cf)
			}
			k := 1 + c.Draw("partial.k", len(b)-1)
			script = append(script, simnet.Step{Label: "partial-answer", Send: b[:k]})
			if c.Bool("partial.ctx", 1, 3) {
				ctxDeadline = []time.Duration{500 * time.Millisecond, 2 * time.Second, 5 * time.Second}[c.Draw("ctxdl", 3)]
			}
		case "fin":
			script = append(script, simnet.Step{Label: "fin", Fin: true})
		case "rst":
			script = append(script, simnet.Step{Label: "rst", Rst: true})
		case "stall":
		case "stall-ctx":
			ctxDeadline = []time.Duration{time.Millisecond, 500 * time.Millisecond, 2 * time.Second, 5 * time.Second}[c.Draw("ctxdl", 4)]
		}
		var rs *respScenario
		success := kind == "hello" || kind == "delayed"
		if success {
			if cf.Negotiated() >= refproto.RevQuotaKeyAddendum {
				script = append(script, simnet.Step{Label: "addendum", OnPacket: nop})
			}
			rs = drawResponse(c, cf, 6)
			// make sure telemetry is observed
			rs.packets = append([]*SPacket{{Kind: "progress", Prog: refproto.Progress{Rows: 11, Bytes: 22, TotalRows: 33, WroteRows: 44, WroteBytes: 55, ElapsedNs: 66}}}, rs.packets...)
			rs.have["progress"] = true
			rs.query.OnProgress = rs.rec.OnProgress
			script = append(script, selectScript(cf, rs.packets)...)
		}
		e.Sim.DrawStrategy()
		e.Sim.StallProb = 0 // delays are part of the scenario here, not of the scheduler
		e.Sim.SetFair()
		e.Sim.MaxSteps = 4000000
		e.W.DeliverMode = c.Weighted("deliver", 3, 1, 2)
		srv := simnet.NewServer(cf.ServerRev, script)
		var conn *simnet.Conn
		dialer := &simnet.Dialer{W: e.W, NewPeer: func(int) simnet.Peer { return srv }}
		if !useDial {
			conn = e.W.NewConn(srv)
		}
		r.Cell = fmt.Sprintf("%s/dial%v", kind, useDial)
		r.NonTriv = cf.ClientRev != cf.ServerRev || kind != "hello"
		r.Sample = map[string]any{"client_rev": cf.ClientRev, "server_rev": cf.ServerRev, "response": kind, "delay": delay.String(), "handshake_timeout": effHT.String(),
			"read_timeout": cf.EffReadTimeout().String(), "ctx_deadline": ctxDeadline.String(), "dial": useDial, "compression": cf.Comp.String(), "user": cf.User, "db": cf.Database}
		what := "Connect"
		if useDial {
			what = "Dial"
		}
		e.OnHang = func(info string) {
			r.Violate("no-return", "no-return:"+kind, "%s never returned (response %s)\n%s", what, kind, info)
		}
		// The caller may give up just as a handshake fails for a reason of its own:
		// whoever cleans up must not leave the other's part undone.
		lateDone := c.Bool("ctx.late", 1, 2)
		farCtx := c.Bool("ctx.far", 1, 2)
		lateCancel := !success && c.Bool("late.cancel", 1, 3)
		lateCancelStep := c.Draw("late.cancel.step", 500)
		var lateCancelFn context.CancelFunc
		if lateCancel {
			done := false
			e.Sim.AddEnv(&sched.EnvFunc{N: "caller-cancel", E: func() bool {
				// only once the server's answer is on its way: the handshake fails by itself
				return !done && lateCancelFn != nil && srv.ScriptPos() >= len(srv.Script) && e.Sim.Step >= lateCancelStep
			}, R: func() {
				done = true
				lateCancelFn()
				r.Fire("caller_cancels_around_failure")
			}})
		}
		return func() {
			ctx := context.Background()
			if ctxDeadline > 0 {
				var cancel context.CancelFunc
				if lateDone {
					// the connection's deadline (a copy of the context's) is noticed first
					ctx, cancel = NewLateCtx(e, ctxDeadline)
				} else {
					ctx, cancel = context.WithTimeout(ctx, ctxDeadline)
				}
				defer cancel()
			}
			if ctxDeadline == 0 && farCtx {
				// a caller with a deadline of its own, far beyond the handshake
				// timeout: the earlier of the two still applies
				var cancel context.CancelFunc
				ctx, cancel = context.WithTimeout(ctx, 3*effHT+time.Hour)
				defer cancel()
				r.Fire("caller_deadline_beyond_handshake_timeout")
			}
			if lateCancel {
				var cancel context.CancelFunc
				ctx, cancel = context.WithCancel(ctx)
				lateCancelFn = cancel
				defer cancel()
			}
			opts := cf.Options()
			opts.HandshakeTimeout = ht
			t0 := e.Sim.Now()
			var cl *ch.Client
			var err error
			if useDial {
				opts.Dialer = dialer
				cl, err = ch.Dial(ctx, opts)
				if len(dialer.Dialed) > 0 {
					conn = dialer.Dialed[0]
				}
			} else {
				cl, err = ch.Connect(ctx, conn, opts)
			}
			took := e.Sim.Now() - t0
			if !success {
				r.Fire("handshake_" + kind)
				if err == nil || cl != nil {
					r.Violate("bad-handshake-accepted", "accepted:"+kind, "%s returned client=%v err=%v although the server answered with %s", what, cl != nil, err, kind)
					return
				}
				if kind == "exception" && !(lateCancel && errors.Is(err, context.Canceled)) {
					// (a caller that cancelled before the exception was read gets its own error)
					ex, ok := ch.AsException(err)
					if !ok || int32(ex.Code) != chain[0].Code || ex.Message != chain[0].Message || len(ex.Next) != len(chain)-1 {
						r.Violate("exception-lost", "exception-lost", "handshake answered by an exception chain %+v but the error is %v", chain, err)
					}
				}
				switch kind {
				case "partial-stall":
					lim := effHT
					if ctxDeadline > 0 && ctxDeadline < lim {
						lim = ctxDeadline
					}
					if took > lim+cf.EffReadTimeout()+5*time.Second {
						r.Violate("slow-return", "partial-stall-slow", "%s returned %v after a server that sent the beginning of its answer and fell silent (handshake timeout %v, context deadline %v)", what, took, effHT, ctxDeadline)
					}
				case "stall":
					if took > effHT+5*time.Second {
						r.Violate("slow-return", "stall-slow", "%s returned %v after a silent server (handshake timeout %v)", what, took, effHT)
					}
				case "stall-ctx":
					if took > ctxDeadline+cf.EffReadTimeout()+5*time.Second {
						r.Violate("slow-return", "stall-ctx-slow", "%s returned after %v with a context deadline of %v", what, took, ctxDeadline)
					}
					if !errors.Is(err, context.DeadlineExceeded) {
						// not part of C13's statement (C10 owns the error of a cancelled handshake)
						r.Probe("stall_ctx_error_is_io_timeout")
					}
				}
				if useDial && conn != nil && conn.CloseCount < 1 {
					r.Violate("dialed-conn-leaked", "dial-leak:"+kind, "Dial failed (%v) but the connection it opened was never closed", err)
				}
				return
			}
			if err != nil {
				if delay > 0 {
					r.Violate("late-hello-refused", "late-hello", "the hello arrived %v after the client's, the handshake timeout is %v, but %s failed after %v: %v", delay, effHT, what, took, err)
				} else {
					r.Violate("handshake-failed", "handshake-failed", "%s failed against a well-behaved server (client %d, server %d): %v (server-side parse error: %v)", what, cf.ClientRev, cf.ServerRev, err, srv.Parser.Err)
				}
				if useDial && conn != nil && conn.CloseCount < 1 {
					r.Violate("dialed-conn-leaked", "dial-leak:"+kind, "Dial failed (%v) but the connection it opened was never closed", err)
				}
				return
			}
			if delay > 0 {
				r.Fire("late_hello_accepted")
			}
			// identity as sent
			si := cl.ServerInfo()
			want := proto.ServerHello{Name: cf.Hello.Name, Major: cf.Hello.Major, Minor: cf.Hello.Minor, Revision: cf.Hello.Revision, Timezone: cf.Hello.Timezone, DisplayName: cf.Hello.DisplayName, Patch: cf.Hello.Patch}
			if si != want {
				r.Violate("server-info", "server-info", "ServerInfo() = %+v, the server sent %+v", si, want)
				return
			}
			// every later packet at the negotiated revision, both directions
			derr := cl.Do(ctx, rs.query)
			rs.checkOutcome(r, derr, "q")
			if _, we, _ := rs.expected(); derr != nil && (!ch.IsException(derr) || we == "callback") {
				// the query was meant to fail on the client's side (a callback's own
				// error, which may even wrap an exception): the client cancels and closes
				return
			}
			cq := &c02Query{sc: &queryScenario{kind: "select"}, q: rs.query}
			checkClientStream(r, cf, conn, []*c02Query{cq})
		}
	})
}

var _ = choice.New
