package props

import (
	"context"
	"errors"
	"fmt"
	"hash/fnv"
	"net"
	"os"
	"sort"
	"strings"
	"testing"
	"time"

	"github.com/ClickHouse/ch-go"
	"github.com/ClickHouse/ch-go/proto"

	"chgosim/choice"
	"chgosim/gen"
	"chgosim/refproto"
	"chgosim/sched"
	"chgosim/simnet"
)

// queryScenario is a generated query with its server script; shared by the
// fault-injecting drivers (C04, C10) and reused by others.
type queryScenario struct {
	cf     *Conf
	kind   string // select | insert
	cols   []ColSpec
	resp   []*SPacket // server packets after the client's request (select) or after input (insert)
	plan   *InsertPlan
	nData  int // client Data packets expected for an insert (blocks + terminator)
	rec    *Recorder
	query  ch.Query
	inCols []proto.Column
	res    proto.Results
	script []simnet.Step
	// indexes into script
	afterHandshake int
}

// autoResponder answers Ping with Pong and a query with one UInt8 row.
func autoResponder(cf *Conf) func(s *simnet.Server, c *simnet.Conn, p *refproto.ClientPacket) {
	sawQuery := false
	return func(s *simnet.Server, c *simnet.Conn, p *refproto.ClientPacket) {
		switch p.Kind {
		case refproto.PPing:
			c.Enqueue((&SPacket{Kind: "pong"}).Encode(cf))
		case refproto.PQuery:
			sawQuery = true
		case refproto.PData:
			if sawQuery && p.Block != nil && len(p.Block.Cols) == 0 {
				sawQuery = false
				b := &refproto.Block{Rows: 1, BucketNum: -1, Cols: []refproto.Column{{Name: "probe", Type: "UInt8", Vals: []any{uint64(7)}}}}
				c.Enqueue((&SPacket{Kind: "data", Block: b}).Encode(cf))
				c.Enqueue((&SPacket{Kind: "eos"}).Encode(cf))
			}
		}
	}
}

func drawTelemetry(c *choice.Stream, cf *Conf) *SPacket {
	rev := cf.Negotiated()
	switch c.Draw("tele.kind", 5) {
	case 0:
		pick := func(label string) uint64 {
			return []uint64{0, 0, 1, 127, 128, 300, 1 << 40}[c.Draw(label, 7)]
		}
		// every field independently zero or not: keep-alives, TotalRows-only, Wrote*-only packets are all legal
		return &SPacket{Kind: "progress", Prog: refproto.Progress{Rows: pick("p.rows"), Bytes: pick("p.bytes"), TotalRows: pick("p.total"), WroteRows: pick("p.wrows"), WroteBytes: pick("p.wbytes"), ElapsedNs: pick("p.ns")}}
	case 1:
		return &SPacket{Kind: "profile", Prof: refproto.Profile{Rows: uint64(c.Pick("pf.rows", 0, 3, 200)), Blocks: uint64(c.Pick("pf.blocks", 0, 1)), Bytes: uint64(c.Pick("pf.bytes", 0, 300, 70000)), AppliedLimit: c.Bool("p.limit", 1, 2), RowsBeforeLimit: uint64(c.Pick("pf.rbl", 0, 9)), CalcRowsBeforeLimit: c.Bool("p.calc", 1, 2)}}
	case 2:
		if rev >= refproto.RevProfileEvents {
			n := c.Range("ev.n", 1, 3)
			var ev []PEvent
			for i := 0; i < n; i++ {
				ev = append(ev, PEvent{Host: "h", Time: 1700000000 + uint64(i), Thread: uint64(i), Type: int64(1 + i%2), Name: fmt.Sprintf("Ev%d", i), Value: int64(i * 10)})
			}
			return &SPacket{Kind: "events", Events: ev}
		}
	case 3:
		if rev >= refproto.RevServerLogs {
			n := c.Range("log.n", 1, 2)
			var ls []LogRow
			for i := 0; i < n; i++ {
				ls = append(ls, LogRow{Time: 1700000000, Micro: 5, Host: "h", QueryID: "q", Thread: 1, Priority: 6, Source: "src", Text: fmt.Sprintf("line %d", i)})
			}
			return &SPacket{Kind: "log", Logs: ls}
		}
	case 4:
		return &SPacket{Kind: "tablecolumns", A: "", B: "columns format version: 1\n"}
	}
	return &SPacket{Kind: "progress", Prog: refproto.Progress{Rows: 1, Bytes: 2, TotalRows: 3}}
}

// drawQueryScenario draws a select or an insert with its fault-free script.
func drawQueryScenario(c *choice.Stream, cf *Conf) *queryScenario {
	sc := &queryScenario{cf: cf, rec: &Recorder{}}
	if c.Bool("q.logger", 1, 4) {
		sc.query.Logger = debugLogger() // a query-scoped logger replaces the client's for the duration of the call
	}
	sc.script = cf.HandshakeSteps()
	sc.afterHandshake = len(sc.script)
	await := func(label string) {
		sc.script = append(sc.script, simnet.Step{Label: label, OnPacket: func(*refproto.ClientPacket) []byte { return nil }})
	}
	send := func(p *SPacket) {
		sc.script = append(sc.script, simnet.Step{Label: p.Kind, Send: p.Encode(cf), AfterPackets: 0})
	}
	if c.Bool("kind.insert", 1, 2) {
		sc.kind = "insert"
		sc.cols = DrawCols(c, "in", 3, 1)
		plan := &InsertPlan{Cols: sc.cols}
		rows0 := 0
		if c.Bool("in.initial", 2, 3) {
			rows0 = c.Range("in.rows0", 1, 5)
			if c.Bool("in.rows0.big", 1, 12) {
				rows0 = c.Pick("in.rows0.bigrows", 600, 3000, 9000)
			}
		}
		plan.Initial = drawRoundVals(c, sc.cols, rows0)
		streamed := c.Bool("in.streamed", 2, 3)
		if rows0 == 0 {
			streamed = true
		}
		if streamed {
			n := c.Range("in.rounds", 1, 4)
			for i := 0; i < n; i++ {
				plan.Rounds = append(plan.Rounds, InputRound{Op: "reset-append", Vals: drawRoundVals(c, sc.cols, c.Range("in.rows", 1, 4))})
			}
			if c.Bool("in.tail", 1, 3) {
				plan.Rounds = append(plan.Rounds, InputRound{Op: "eof-tail", Vals: drawRoundVals(c, sc.cols, c.Range("in.rows", 1, 4))})
			} else {
				plan.Rounds = append(plan.Rounds, InputRound{Op: "eof"})
			}
		}
		sc.plan = plan
		sc.nData = len(plan.ExpectedBlocks()) + 1
		for i, cs := range sc.cols {
			col, err := gen.NewCol(cs.Type)
			if err != nil {
				panic(err)
			}
			if err := gen.Fill(col, cs.RT, plan.Initial[i]); err != nil {
				panic(err)
			}
			sc.inCols = append(sc.inCols, col)
			sc.query.Input = append(sc.query.Input, proto.InputColumn{Name: cs.Name, Data: col})
		}
		sc.query.Body = "INSERT INTO t VALUES"
		if streamed {
			sc.query.OnInput = plan.OnInput(sc.inCols, sc.rec)
		}
		await("query")
		await("ext-end")
		// schema block: zero rows, the input columns' types
		hdr := &refproto.Block{BucketNum: -1}
		for _, cs := range sc.cols {
			hdr.Cols = append(hdr.Cols, refproto.Column{Name: cs.Name, Type: cs.Type, Vals: []any{}})
		}
		send(&SPacket{Kind: "data", Block: hdr})
		for i := 0; i < sc.nData; i++ {
			await(fmt.Sprintf("data%d", i))
			if c.Bool("in.progress", 1, 4) {
				send(&SPacket{Kind: "progress", Prog: refproto.Progress{WroteRows: 1, WroteBytes: 8}})
			}
		}
		send(&SPacket{Kind: "eos"})
		return sc
	}
	sc.kind = "select"
	sc.cols = DrawCols(c, "res", 3, 1)
	res, _ := ResultTargets(sc.cols)
	sc.res = res
	sc.query.Body = "SELECT"
	sc.query.Result = sc.res
	sc.query.OnResult = sc.rec.OnResult(sc.cols, &sc.res)
	sc.query.OnProgress = sc.rec.OnProgress
	sc.query.OnProfile = sc.rec.OnProfile
	sc.query.OnProfileEvents = sc.rec.OnProfileEvents
	sc.query.OnLogs = sc.rec.OnLogs
	await("query")
	await("ext-end")
	if c.Bool("res.header", 1, 2) {
		send(&SPacket{Kind: "data", Block: DrawBlock(c, sc.cols, 0)})
	}
	n := c.Range("res.blocks", 0, 3)
	for i := 0; i < n; i++ {
		send(&SPacket{Kind: "data", Block: DrawBlock(c, sc.cols, c.Range("res.rows", 1, 6))})
		if c.Bool("res.tele", 1, 3) {
			send(drawTelemetry(c, cf))
		}
	}
	if c.Bool("res.totals", 1, 5) {
		send(&SPacket{Kind: "totals", Block: DrawBlock(c, sc.cols, 1)})
	}
	send(&SPacket{Kind: "eos"})
	return sc
}

// unexpectedPackets are well-formed server packets the client does not
// expect inside a query.
func drawUnexpected(c *choice.Stream, cf *Conf) ([]byte, string) {
	var w refproto.W
	switch c.Draw("unexp", 6) {
	case 0:
		refproto.EncodeHello(&w, cf.Hello, cf.ClientRev)
		return w.B, "hello"
	case 1:
		refproto.EncodePong(&w)
		return w.B, "pong"
	case 2:
		w.UVarint(9) // TablesStatusResponse, empty
		w.UVarint(0)
		return w.B, "tablesstatus"
	case 3:
		w.UVarint(12) // PartUUIDs, empty vector
		w.UVarint(0)
		return w.B, "partuuids"
	case 4:
		w.UVarint(13) // ReadTaskRequest
		return w.B, "readtask"
	default:
		// a data block whose schema does not fit any target
		b := &refproto.Block{Rows: 1, BucketNum: -1, Cols: []refproto.Column{
			{Name: "zz1", Type: "UInt8", Vals: []any{uint64(1)}},
			{Name: "zz2", Type: "UInt8", Vals: []any{uint64(1)}},
			{Name: "zz3", Type: "UInt8", Vals: []any{uint64(1)}},
			{Name: "zz4", Type: "UInt8", Vals: []any{uint64(1)}},
		}}
		return (&SPacket{Kind: "data", Block: b}).Encode(cf), "misfit-block"
	}
}

func init() {
	Register(&Prop{
		ID: "C04", Engine: "A", Quick: 12000, Thorough: 6000, Level: "exploration",
		Rule:     "each run = one generated query scenario (select or insert, schema, compression, revisions) + one drawn primary fault (cut FIN/RST at byte k, write error at byte k, failing callback j, exception / unknown code / unexpected packet at script position p, one byte of the server stream altered in flight, unequal input columns; in a quarter of the runs the connection reports an error from Close; after a cut the client may stay open only if the fault plan says a whole exception packet was delivered) + one seeded schedule of all client goroutines and environment actions; distinct = distinct schedule digests; non-trivial = the fault fired and Do returned an error",
		Run:      runC04,
		SlowCase: 30 * time.Second, // a fault-point enumeration case is several hundred simulated runs
	})
}

// c04Forced pins the scenario and the fault of one run (fault-point
// enumeration); nil means everything is drawn.
type c04Forced struct {
	scSeed uint64
	fault  string // none cut_fin cut_rst write_err callback_err exception
	k      int    // byte offset (cut / write_err), script position (exception), invocation (callback_err)
	cb     string
}

// c04Info is what a fault-free run of a scenario reveals about its fault space.
type c04Info struct {
	serverBytes, clientBytes, scriptLen, qStart int
	calls                                       map[string]int
	insert                                      bool
}

func runC04(t *testing.T, c *choice.Stream, r *Result, opt RunOpt) {
	if opt.Tier == "thorough" && r.Index%6 == 0 {
		runC04Enum(t, c, r, opt)
		return
	}
	c04Run(t, c, r, opt, nil)
}

// runC04Enum: one scenario instance, a fault-free run to measure it, then
// every fault point of it (all cut positions of the server stream, all write
// error positions of the client stream, every script position for an
// exception, every callback invocation), each under its own drawn schedule.
func runC04Enum(t *testing.T, c *choice.Stream, r *Result, opt RunOpt) {
	scSeed := uint64(1 + c.Draw("enum.scenario", 1<<31-2))
	probe := &Result{Prop: r.Prop, Index: r.Index, Seed: r.Seed}
	info := c04Run(t, c, probe, opt, &c04Forced{scSeed: scSeed, fault: "none"})
	if probe.Outcome == "harness" || probe.Outcome == "violation" {
		*r = *probe
		return
	}
	var plan []c04Forced
	stride := func(n int) int { return max(1, n/400) }
	for k := 0; k <= info.serverBytes; k += stride(info.serverBytes) {
		plan = append(plan, c04Forced{scSeed: scSeed, fault: "cut_fin", k: k}, c04Forced{scSeed: scSeed, fault: "cut_rst", k: k})
	}
	for k := 0; k <= info.clientBytes; k += stride(info.clientBytes) {
		plan = append(plan, c04Forced{scSeed: scSeed, fault: "write_err", k: k})
	}
	for p := info.qStart + 1; p < info.scriptLen; p++ {
		plan = append(plan, c04Forced{scSeed: scSeed, fault: "exception", k: p})
	}
	for name, n := range info.calls {
		for j := 1; j <= n; j++ {
			plan = append(plan, c04Forced{scSeed: scSeed, fault: "callback_err", k: j, cb: name})
		}
	}
	sort.SliceStable(plan, func(i, j int) bool {
		if plan[i].fault != plan[j].fault {
			return plan[i].fault < plan[j].fault
		}
		if plan[i].cb != plan[j].cb {
			return plan[i].cb < plan[j].cb
		}
		return plan[i].k < plan[j].k
	})
	total := &Result{}
	dg := fnv.New64a()
	for i := range plan {
		sub := &Result{Prop: r.Prop, Index: r.Index, Seed: r.Seed}
		c04Run(t, c, sub, opt, &plan[i])
		total.Steps += sub.Steps
		total.Switches += sub.Switches
		total.SimMs += sub.SimMs
		fmt.Fprintf(dg, "%s;", sub.Digest)
		for k, v := range sub.Fired {
			for j := 0; j < v; j++ {
				r.Fire(k)
			}
		}
		if sub.Outcome == "violation" || sub.Outcome == "harness" {
			fired, probes := r.Fired, r.Probes
			*r = *sub
			r.Fired, r.Probes = fired, probes
			r.Detail = fmt.Sprintf("[fault-point enumeration: %s at %d %s] %s", plan[i].fault, plan[i].k, plan[i].cb, r.Detail)
			return
		}
	}
	r.Steps, r.Switches, r.SimMs = total.Steps, total.Switches, total.SimMs
	r.Digest = fmt.Sprintf("%016x", dg.Sum64())
	r.Evals = len(plan) + 1
	r.NonTriv = true
	r.Cell = "enumeration"
	r.Probe("fault_points_enumerated")
	r.Sample = map[string]any{"family": "fault-point enumeration of one scenario", "scenario": probe.Sample, "server_bytes": info.serverBytes, "client_bytes": info.clientBytes, "fault_points": len(plan)}
}

func c04Run(t *testing.T, c *choice.Stream, r *Result, opt RunOpt, forced *c04Forced) (info c04Info) {
	Bubble(t, c, r, opt, func(e *Env) func() {
		scs := c
		if forced != nil {
			scs = choice.New(forced.scSeed)
		}
		cf := DrawConf(scs)
		sc := drawQueryScenario(scs, cf)
		e.Sim.DrawStrategy()
		e.Sim.StallProb = 0 // C04 asserts a time bound: no voluntary stalls
		e.W.DeliverMode = c.Weighted("deliver", 4, 1, 3)
		e.W.ShortReads = c.Pick("shortreads", 0, 0, 100)

		// ---- fault plan ----
		fault := c.Weighted("fault", 3, 3, 3, 3, 4, 2, 2, 1, 2)
		faultName := []string{"cut_fin", "cut_rst", "write_err", "callback_err", "exception", "bad_code", "unexpected", "rows_mismatch", "corrupt"}[fault]
		if faultName == "rows_mismatch" && (sc.kind != "insert" || len(sc.inCols) < 2) {
			// ... or an external table whose columns are of unequal length: the
			// request is refused while it is being encoded, before its first flush
			faultName = "exception"
			if c.Bool("ext.mismatch", 1, 2) {
				faultName = "ext_mismatch"
			}
		}
		script := sc.script
		qStart := sc.afterHandshake
		var cutK, werrK int
		info.scriptLen, info.qStart, info.insert = len(script), qStart, sc.kind == "insert"
		for _, s := range script[qStart:] {
			info.serverBytes += len(s.Send)
		}
		if forced != nil {
			faultName = forced.fault
			switch forced.fault {
			case "cut_fin", "cut_rst":
				cutK = forced.k
			case "write_err":
				werrK = forced.k
			case "callback_err":
				sc.rec.FailAt = map[string]int{forced.cb: forced.k}
			case "exception":
				ns := append([]simnet.Step{}, script[:forced.k]...)
				script = append(ns, simnet.Step{Label: "exception", Send: (&SPacket{Kind: "exception", Exc: []refproto.Exception{{Code: 60, Name: "DB::Exception", Message: "DB::Exception: enumerated"}}}).Encode(cf)})
			}
		}
		switch map[bool]string{true: "forced", false: faultName}[forced != nil] {
		case "cut_fin", "cut_rst":
			if c.Bool("cut.with-exception", 1, 4) {
				// the response ends in a server exception (legal), and the transport
				// fault may land before, inside or after that packet
				p := qStart + 1 + c.Draw("cut.exc.pos", len(script)-qStart-1)
				ns := append([]simnet.Step{}, script[:p]...)
				script = append(ns, simnet.Step{Label: "exception", Send: (&SPacket{Kind: "exception", Exc: DrawExceptionChain(c)}).Encode(cf)})
			}
			total := 0
			for _, s := range script[qStart:] {
				total += len(s.Send)
			}
			cutK = c.Draw("cut.k", total+1)
			if c.Bool("cut.tail", 1, 3) && total > 0 {
				cutK = total - c.Draw("cut.k.tail", min(total, 40)) // near the end: inside the last packets
			}
		case "write_err":
			werrK = c.Draw("werr.k", 400)
			if c.Bool("werr.big", 1, 4) {
				werrK = c.Draw("werr.k2", 4000)
			}
			if c.Bool("werr.with-exception", 1, 3) {
				// the server has refused the query (legally) by the time the client's
				// write fails: whichever the client notices first, a half-written packet
				// must not stay on an open connection
				p := qStart + 1 + c.Draw("werr.exc.pos", len(script)-qStart-1)
				ns := append([]simnet.Step{}, script[:p]...)
				script = append(ns, simnet.Step{Label: "exception", Send: (&SPacket{Kind: "exception", Exc: DrawExceptionChain(c)}).Encode(cf)})
			}
		case "callback_err":
			names := []string{"result", "progress", "profile", "events", "logs"}
			if sc.kind == "insert" {
				names = []string{"input"}
			}
			sc.rec.FailAt = map[string]int{names[c.Draw("cb.name", len(names))]: 1 + c.Draw("cb.j", 3)}
			switch c.Draw("cb.other-like", 6) {
			case 0:
				// ... or carries the timeout of a socket of the callback's own
				sc.rec.FailWith = fmt.Errorf("forward rows: %w", &net.OpError{Op: "write", Net: "tcp", Err: os.ErrDeadlineExceeded})
			case 1:
				sc.rec.FailWith = fmt.Errorf("callback gave up: %w", context.Canceled)
			}
			if sc.rec.FailWith == nil && c.Bool("cb.exception-like", 1, 3) {
				// the callback's own error happens to carry a server exception (say, of a
				// query it ran on another connection): this query's stream is still cut
				// short in the middle, and the error must not be mistaken for its end
				sc.rec.FailWith = fmt.Errorf("lookup in callback: %w", &ch.Exception{Code: 60, Name: "DB::Exception", Message: "DB::Exception: Table default.other does not exist"})
			}
		case "ext_mismatch":
			a, b := new(proto.ColUInt64), new(proto.ColStr)
			for i := 0; i < c.Range("ext.rows", 1, 3); i++ {
				a.Append(uint64(i))
				b.Append("x")
			}
			b.Append("one more")
			sc.query.ExternalData = []proto.InputColumn{{Name: "a", Data: a}, {Name: "b", Data: b}}
			if c.Bool("ext.table", 1, 2) {
				sc.query.ExternalTable = "ext_tbl"
			}
		case "rows_mismatch":
			// the caller hands over input columns of unequal length: the block is refused while it is being written
			extra := sc.inCols[len(sc.inCols)-1]
			cs := sc.cols[len(sc.cols)-1]
			if err := gen.Fill(extra, cs.RT, gen.Values(c.Sub("mismatch.vals"), cs.RT, 1+c.Draw("mismatch.n", 3))); err != nil {
				panic(err)
			}
		case "corrupt":
			// an undecodable packet: one byte of the server's stream altered in
			// flight (any packet, any field; under compression mostly inside a frame)
			var cand []int
			for i := qStart; i < len(script); i++ {
				if len(script[i].Send) > 0 {
					cand = append(cand, i)
				}
			}
			if len(cand) == 0 {
				faultName = "exception"
				script = append(append([]simnet.Step{}, script...), simnet.Step{Label: "exception", Send: (&SPacket{Kind: "exception", Exc: DrawExceptionChain(c)}).Encode(cf)})
				break
			}
			i := cand[c.Draw("corrupt.step", len(cand))]
			b := append([]byte(nil), script[i].Send...)
			off := c.Draw("corrupt.off", len(b))
			if c.Bool("corrupt.head", 1, 3) {
				off = c.Draw("corrupt.off.head", min(len(b), 30)) // codes, names, lengths, frame headers
			}
			b[off] ^= byte(1 << c.Draw("corrupt.bit", 8))
			ns := append([]simnet.Step{}, script...)
			ns[i].Send = b
			ns[i].Label += "*"
			script = ns
		case "exception", "bad_code", "unexpected":
			// replace the script from position p (>= after the Query packet) on
			p := qStart + 1 + c.Draw("fault.pos", len(script)-qStart-1)
			var inj simnet.Step
			switch faultName {
			case "exception":
				inj = simnet.Step{Label: "exception", Send: (&SPacket{Kind: "exception", Exc: DrawExceptionChain(c)}).Encode(cf)}
			case "bad_code":
				var w refproto.W
				// unknown codes, among them ones whose low byte is a code the client knows
				w.UVarint(uint64(c.Pick("badcode", 15, 99, 127, 128, 200, 300, 16384, 256+5, 256+2, 256+1, 256+3, 512+5, 256+4, 65536+5)))
				inj = simnet.Step{Label: "bad_code", Send: w.B}
			default:
				b, name := drawUnexpected(c, cf)
				inj = simnet.Step{Label: "unexpected:" + name, Send: b}
				if sc.kind == "insert" && c.Bool("unexp.dup-header", 1, 3) {
					// the schema block of an INSERT arrives again (and again): well-formed,
					// fits the target, and nobody is waiting for it
					for i := qStart; i < len(script); i++ {
						if script[i].Label == "data" && len(script[i].Send) > 0 {
							k := c.Range("unexp.dup-header.n", 1, 3)
							var rep []byte
							for j := 0; j < k; j++ {
								rep = append(rep, script[i].Send...)
							}
							inj = simnet.Step{Label: fmt.Sprintf("unexpected:header-x%d", k), Send: rep}
							p = i + 1
							break
						}
					}
				}
			}
			ns := append([]simnet.Step{}, script[:p]...)
			ns = append(ns, inj)
			if strings.HasPrefix(inj.Label, "unexpected:header-x") {
				// the server then carries on as if nothing had happened
				ns = append(ns, script[p:]...)
			}
			script = ns
		}
		// An INSERT refused right after the schema exchange by a server that then no
		// longer reads what the client keeps sending (it has nothing to do with it):
		// the sender ends up blocked in Write with the exception already delivered.
		excStuckAfter := -1
		if sc.kind == "insert" && faultName == "exception" && forced == nil && c.Bool("exc.stuck", 1, 4) {
			for i := qStart; i < len(script); i++ {
				if script[i].Label == "data" && len(script[i].Send) > 0 {
					ns := append([]simnet.Step{}, script[:i+1]...)
					script = append(ns, simnet.Step{Label: "exception", Send: (&SPacket{Kind: "exception", Exc: DrawExceptionChain(c)}).Encode(cf)})
					excStuckAfter = c.Draw("exc.stuck.after", 300)
					break
				}
			}
		}
		// where a server exception ends in the response stream, if there is one:
		// only a client that has been given that whole packet may stay open
		excEnd := -1
		{
			acc := 0
			for _, s := range script[qStart:] {
				acc += len(s.Send)
				if strings.HasPrefix(s.Label, "exception") && !strings.HasSuffix(s.Label, "*") {
					excEnd = acc
				}
			}
		}
		// The connection may have a history: an earlier query that the server refused
		// with an exception leaves the client open, and nothing of it may colour how
		// the next failure is handled.
		prelude := forced == nil && c.Bool("prelude.exception", 1, 4)
		if prelude {
			nop := func(*refproto.ClientPacket) []byte { return nil }
			pre := []simnet.Step{{Label: "pre:query", OnPacket: nop}, {Label: "pre:ext-end", OnPacket: nop},
				{Label: "pre:exception", Send: (&SPacket{Kind: "exception", Exc: DrawExceptionChain(c)}).Encode(cf)}}
			ns := append([]simnet.Step{}, script[:qStart]...)
			ns = append(ns, pre...)
			script = append(ns, script[qStart:]...)
		}
		srv := simnet.NewServer(cf.ServerRev, script)
		srv.Auto = autoResponder(cf)
		conn := e.W.NewConn(srv)
		if c.Bool("backpressure", 1, 4) {
			conn.Window = c.Pick("window", 8, 64, 512) // the sender may be blocked inside Write when the fault lands
		}
		if sc.kind == "insert" && (faultName == "exception" || faultName == "cut_rst" || faultName == "cut_fin") && c.Bool("backpressure.insert", 1, 2) {
			conn.Window = c.Pick("window.insert", 8, 8, 64) // an exception or a cut while a data block is half-way out
		}
		conn.CloseErr = c.Bool("close_err", 1, 4) // releasing the connection reports an error
		stuckArmed := false                       // the server has stopped reading (or must not any more)
		var inputIdle time.Duration               // time an input callback spent waiting for data of its own while the query was alive
		ctxDeadlineOff := false
		if sc.kind == "insert" && sc.query.OnInput != nil && forced == nil && (faultName == "exception" || faultName == "bad_code" || faultName == "unexpected") && c.Bool("input.waits", 1, 3) {
			// a producer that has nothing to hand over yet: the callback waits on the
			// context it was given (the usual channel-fed pattern). Once the server
			// has ended the query and the client has read all of it, that context
			// must end too; the wait gives up by itself after half a minute
			inner := sc.query.OnInput
			waitRound := 1 + c.Draw("input.waits.round", 3)
			ctxDeadlineOff = true
			calls := 0
			sc.query.OnInput = func(ctx context.Context) error {
				calls++
				if calls == waitRound {
					r.Fire("input_callback_waits_on_its_context")
					over := time.Duration(0)
					tick := max(cf.EffReadTimeout()/2, time.Millisecond)
					for i := 0; i < 16; i++ {
						t := time.NewTimer(tick)
						select {
						case <-ctx.Done():
							t.Stop()
							e.Sim.Yield("input.wait.done")
							return ctx.Err()
						case <-t.C:
						}
						e.Sim.Yield("input.wait.tick")
						if !(srv.Done() && conn.ReadLen() == conn.Enq()) {
							inputIdle += tick // nothing has ended the query yet: the caller's own time
							continue
						}
						if over += tick; over >= 4*tick {
							r.Violate("no-return", "input-callback-not-released:"+faultName, "the server ended the query (%s) and the client has read all of it, yet %v later the context given to OnInput is still not done: a callback that waits on it keeps Do from returning", faultName, over)
							break
						}
					}
				}
				return inner(ctx)
			}
		}
		ctxDeadline := time.Duration(c.Pick("ctx.deadline.s", 0, 0, 20, 120)) * time.Second
		if ctxDeadlineOff {
			ctxDeadline = 0 // a caller that waits for its producer sets no deadline
		}
		if excStuckAfter >= 0 && c.Bool("exc.stuck.deadline", 1, 2) {
			// ... and the caller's deadline passes a moment after the exception has
			// arrived, while the sender is still blocked half-way through a block
			ctxDeadline = time.Duration(c.Pick("exc.stuck.deadline.ms", 50, 300, 800)) * time.Millisecond
			r.Fire("deadline_shortly_after_exception")
		}
		probeLate := c.Bool("probe.late", 1, 2)
		r.Cell = fmt.Sprintf("%s/%s/comp%d", sc.kind, faultName, cf.Comp)
		r.Sample = map[string]any{"kind": sc.kind, "fault": faultName, "client_rev": cf.ClientRev, "server_rev": cf.ServerRev, "compression": cf.Comp.String(),
			"cols": colNames(sc.cols), "cut_k": cutK, "write_err_k": werrK, "fail_at": sc.rec.FailAt, "script": scriptLabels(script), "strategy": e.Sim.Strategy, "deliver": e.W.DeliverMode}

		e.OnHang = func(info string) {
			r.Violate("no-return", "no-return:"+faultName, "the call never returned (nothing could move for an hour of simulated time with a finite read timeout)\n%s", info)
		}
		return func() {
			ctx := context.Background()
			cl, err := ch.Connect(ctx, conn, cf.Options())
			if err != nil {
				r.Harness("fault-free handshake failed: %v (server parse error: %v)", err, srv.Parser.Err)
				return
			}
			if prelude {
				perr := cl.Do(ctx, ch.Query{Body: "SELECT refused"})
				if !ch.IsException(perr) || cl.IsClosed() {
					r.Harness("prelude query: err=%v closed=%v", perr, cl.IsClosed())
					return
				}
				r.Fire("earlier_query_ended_by_exception")
			}
			if excStuckAfter >= 0 {
				if conn.Window == 0 {
					conn.Window = 64
				}
				// from the instant the exception is out, the server reads only a little more
				e.Sim.AddEnv(&sched.EnvFunc{N: "server-stops-reading", E: func() bool {
					return !stuckArmed && srv.ScriptPos() >= len(srv.Script)
				}, R: func() {
					stuckArmed = true
					conn.StopReadAt = conn.PeerViewLen() + excStuckAfter
					r.Fire("exception_then_server_stops_reading")
				}})
			}
			switch faultName {
			case "cut_fin", "cut_rst":
				conn.CutAfter = conn.Enq() + cutK
				conn.CutRST = faultName == "cut_rst"
			case "write_err":
				conn.WriteErrAfter = conn.OutLen() + werrK
			}
			if ctxDeadline > 0 && faultName != "corrupt" {
				// the caller's context carries a deadline well beyond the exchange: every
				// flush arms (and must disarm) a write deadline on the connection
				var cancel context.CancelFunc
				ctx, cancel = context.WithTimeout(ctx, ctxDeadline)
				defer cancel()
			}
			if faultName == "corrupt" {
				// An altered byte can hide the end of the response (a code or a length
				// changed): the client then waits for packets that never come, which
				// is what it is meant to do while its context lives. The context gets
				// a deadline, so that the call has to return in every case.
				var cancel context.CancelFunc
				ctx, cancel = context.WithTimeout(ctx, max(8*cf.EffReadTimeout(), 2*time.Second))
				defer cancel()
			}
			t0 := time.Now()
			before := conn.OutLen()
			derr := cl.Do(ctx, sc.query)
			took := time.Since(t0)
			info.clientBytes = conn.OutLen() - before
			info.calls = sc.rec.Calls
			if derr == nil {
				if faultName == "bad_code" {
					for _, l := range srv.Sent {
						if l == "bad_code" {
							r.Violate("unknown-packet-accepted", "unknown-code-accepted", "the server sent an unknown packet code in the middle of the response and Do returned nil")
							return
						}
					}
				}
				r.Probe("fault_did_not_fire")
				return
			}
			r.NonTriv = true
			r.Fire(faultName)
			if faultName == "corrupt" {
				var cde *ch.CorruptedDataErr
				if errors.As(derr, &cde) {
					r.Fire("corrupted_data_err")
					if cde.Actual == cde.Reference {
						r.Violate("corruption-report", "equal-checksums", "Do reported corrupted data with equal checksums: %v", derr)
					}
				}
				if ch.IsException(derr) && !cl.IsClosed() {
					// the altered byte produced (or lay inside) a well-formed exception: the
					// client cannot know, and where the stream stands afterwards is undefined
					r.Probe("corrupt_became_exception")
					return
				}
			}
			if lim := cf.EffReadTimeout() + 5*time.Second; took-inputIdle > lim && !(faultName == "corrupt" && ctx.Err() != nil) {
				r.Violate("slow-return", "slow-return:"+faultName, "Do returned after %v of simulated time (read timeout %v) with %v", took, cf.EffReadTimeout(), derr)
			}
			excWhole := true
			if faultName == "cut_fin" || faultName == "cut_rst" {
				excWhole = excEnd >= 0 && cutK >= excEnd
			}
			if excStuckAfter >= 0 {
				conn.StopReadAt = -1 // the server comes back to life for the usability probe
				stuckArmed = true    // ... and stays alive: the action may not have had its turn yet
			}
			if faultName == "write_err" && conn.Fired["write_err"] == 0 {
				// the query ended (by the server's exception) before the write side broke:
				// this run is an exception run, and the probe is not what the fault is for
				conn.WriteErrAfter = -1
				faultName = "exception"
				r.Probe("write_fault_did_not_fire")
			}
			if ctxDeadline > 0 && probeLate {
				// the next request comes when the failed query's deadline is long past
				time.Sleep(ctxDeadline + time.Second)
				e.Sim.Yield("user.sleep")
				r.Fire("probe_after_old_deadline")
			}
			checkAfterFailure(e, r, cf, cl, conn, srv, faultName, derr, excWhole)
		}
	})
	return info
}

func colNames(cs []ColSpec) []string {
	var out []string
	for _, c := range cs {
		out = append(out, c.Type)
	}
	return out
}

func scriptLabels(s []simnet.Step) []string {
	var out []string
	for _, st := range s {
		l := st.Label
		if st.OnPacket != nil {
			l = "await:" + l
		}
		out = append(out, l)
	}
	return out
}

// checkAfterFailure is the post-failure oracle of C04: closed and inert, or
// open and exactly at a packet boundary in both directions.
// excWhole: the server's exception packet (if any) reached the client in full.
func checkAfterFailure(e *Env, r *Result, cf *Conf, cl *ch.Client, conn *simnet.Conn, srv *simnet.Server, faultName string, derr error, excWhole bool) {
	ctx := context.Background()
	if cl.IsClosed() {
		r.Probe("closed_after_failure")
		calls := conn.CallCount()
		closes := conn.CloseCount
		if err := cl.Ping(ctx); !errors.Is(err, ch.ErrClosed) {
			r.Violate("closed-client-active", "closed-ping", "Ping on a closed client returned %v, want ErrClosed", err)
		}
		if err := cl.Do(ctx, ch.Query{Body: "SELECT 1"}); !errors.Is(err, ch.ErrClosed) {
			r.Violate("closed-client-active", "closed-do", "Do on a closed client returned %v, want ErrClosed", err)
		}
		if err := cl.Close(); !errors.Is(err, ch.ErrClosed) {
			r.Violate("closed-client-active", "closed-close", "Close on a closed client returned %v, want ErrClosed", err)
		}
		if n := conn.CallCount(); n != calls {
			r.Violate("closed-client-touches-conn", "closed-touch", "a closed client made %d connection calls (%v)", n-calls, conn.CallLog)
		}
		if conn.CloseCount != closes {
			r.Violate("closed-client-touches-conn", "closed-reclose", "connection closed again by a closed client")
		}
		return
	}
	r.Probe("open_after_failure")
	// (i) everything written so far must be whole packets
	out := conn.OutCopy()
	p := refproto.ClientParser{ServerRev: cf.ServerRev}
	for {
		pkt, err := p.Next(out)
		if err != nil {
			r.Violate("open-not-at-boundary", "write-side-garbage:"+faultName, "client left open after %q but its output does not parse: %v", derr, err)
			return
		}
		if pkt == nil {
			break
		}
	}
	if p.Pos != len(out) {
		r.Violate("open-not-at-boundary", "write-side-partial:"+faultName, "client left open after %q with a partial packet on the wire (%d of %d bytes parse)", derr, p.Pos, len(out))
		return
	}
	// (ii) the next request starts with its own first byte
	srv.Script = srv.Script[:srv.ScriptPos()] // the server abandons the failed query and serves what comes next
	mark := conn.OutLen()
	perr := cl.Ping(ctx)
	got := conn.OutCopy()[mark:]
	transport := faultName == "cut_fin" || faultName == "cut_rst" || faultName == "write_err"
	if transport && !(ch.IsException(derr) && excWhole) {
		// The query did not end with a complete server exception, so it ended in
		// the middle of the exchange: a stream that broke inside a packet (either
		// direction) cannot be at a packet boundary, and the client may not stay open.
		r.Violate("open-not-at-boundary", "open-after-transport-failure:"+faultName, "the connection failed during the query (%s) and Do returned %q (whole server exception delivered: %v), yet the client was left open", faultName, derr, excWhole)
		return
	}
	if transport && len(got) == 0 && perr != nil {
		// the connection is dead and nothing reached the wire: nothing to hold against the client
		r.Probe("open_on_dead_conn")
		return
	}
	if len(got) == 0 || got[0] != 4 || len(got) != 1 {
		r.Violate("stale-bytes", "stale-bytes:"+faultName, "after the failed query (%q) the next Ping wrote % x (%d bytes), want exactly 04; Ping returned %v", derr, trunc(got, 48), len(got), perr)
		return
	}
	if perr != nil && transport {
		r.Probe("open_on_dead_conn")
		return
	}
	if perr != nil {
		r.Violate("open-but-unusable", "read-side:"+faultName, "client left open after %q but the next Ping failed: %v", derr, perr)
		return
	}
	// (iii) and a following query works
	var v proto.ColUInt8
	qerr := cl.Do(ctx, ch.Query{Body: "SELECT 7", Result: proto.Results{{Name: "probe", Data: &v}}})
	if qerr != nil || len(v) != 1 || v[0] != 7 {
		r.Violate("open-but-unusable", "second-query:"+faultName, "client left open after %q but the next query gave %v / %v", derr, qerr, v)
	}
}

func trunc(b []byte, n int) []byte {
	if len(b) > n {
		return b[:n]
	}
	return b
}

var _ = sched.Done
