// Package props holds one driver per claimed property plus the worker / parent
// machinery that runs them (DESIGN.md section 8).
package props

import (
	"chgosim/refproto"
	"context"
	"fmt"
	"runtime"
	"runtime/debug"
	"strings"
	"sync"
	"testing"
	"testing/synctest"
	"time"

	"github.com/ClickHouse/ch-go/simrt"
	"github.com/google/uuid"

	"chgosim/choice"
	"chgosim/sched"
	"chgosim/simnet"
)

// Result of one simulated run.
type Result struct {
	Alt     bool   `json:"alt_build,omitempty"` // ran in the alternative worker binary
	Prop    string `json:"prop"`
	Index   int    `json:"index"`
	Seed    uint64 `json:"seed"`
	Outcome string `json:"outcome"` // ok | violation | skip | harness
	Clause  string `json:"clause,omitempty"`
	Key     string `json:"key,omitempty"` // finding key: call site / input class
	Detail  string `json:"detail,omitempty"`

	Steps      int            `json:"steps"`
	Switches   int            `json:"switches"`
	SimMs      int64          `json:"sim_ms"`
	Digest     string         `json:"digest"`
	Fired      map[string]int `json:"fired,omitempty"`
	Probes     map[string]int `json:"probes,omitempty"`
	Cell       string         `json:"cell,omitempty"`
	Sites      int            `json:"sites,omitempty"`
	Pairs      int            `json:"pairs,omitempty"`
	NonTriv    bool           `json:"nontrivial"`
	Evals      int            `json:"evals,omitempty"` // executions inside this case (default 1)
	Sample     any            `json:"sample,omitempty"`
	Choices    []uint64       `json:"choices,omitempty"`
	Trace      []string       `json:"trace,omitempty"`
	SiteSet    []string       `json:"site_set,omitempty"`
	Transcript string         `json:"transcript,omitempty"`
	HangInfo   string         `json:"hang_info,omitempty"`
	// frozen is set before end-of-run cleanup: what the workload observes while
	// the simulator tears connections down is not a finding.
	frozen bool
}

var resMu sync.Mutex

func (r *Result) Fire(k string) {
	resMu.Lock()
	defer resMu.Unlock()
	if r.Fired == nil {
		r.Fired = map[string]int{}
	}
	r.Fired[k]++
}

func (r *Result) Probe(k string) {
	resMu.Lock()
	defer resMu.Unlock()
	if r.Probes == nil {
		r.Probes = map[string]int{}
	}
	r.Probes[k]++
}

// Violate records the first violation of the run.
func (r *Result) Violate(clause, key, format string, a ...any) {
	if r.frozen || r.Outcome == "violation" {
		return
	}
	r.Outcome = "violation"
	r.Clause = clause
	r.Key = key
	r.Detail = fmt.Sprintf(format, a...)
}

// Harness records a problem of the machinery itself (never a violation).
func (r *Result) Harness(format string, a ...any) {
	if r.frozen || r.Outcome == "violation" || r.Outcome == "harness" {
		return
	}
	r.Outcome = "harness"
	r.Detail = fmt.Sprintf(format, a...)
}

// Prop describes one property driver.
type Prop struct {
	ID       string
	Engine   string // "A" (simnet, needs a bubble) or "B" (simio)
	Quick    int
	Thorough int
	Level    string
	Rule     string
	Assume   []string
	// OnDeath classifies a worker process that died while running a case
	// (engine B child-process isolation); nil means machinery trouble.
	OnDeath func(r *Result)
	// SlowCase is a generous upper estimate of the real time one case may take
	// (only used to size the watchdog of a worker chunk).
	SlowCase time.Duration
	// Diff: the parent runs every case in two worker binaries (default build
	// and the one named by VERIF_WORKER_PUREGO) and compares their transcripts.
	Diff bool
	// AltEvery > 0: every AltEvery-th chunk of runs goes to the worker binary
	// named by VERIF_WORKER_ALT (another build of the same code: C12 runs a
	// quarter of its cases on the race build of the purego variant).
	AltEvery int
	// OnStderr lets a property turn what a worker printed on stderr (race
	// reports) into outcomes of the runs of that worker.
	OnStderr func(stderr string, results []*Result, probe func(string))
	// Run executes one run. Engine A drivers call Bubble themselves.
	Run func(t *testing.T, c *choice.Stream, r *Result, opt RunOpt)
}

type RunOpt struct {
	Tier      string
	KeepTrace bool
}

var Registry = map[string]*Prop{}

func Register(p *Prop) { Registry[p.ID] = p }

// Env is what an engine-A scenario gets inside the bubble.
type Env struct {
	T   *testing.T
	C   *choice.Stream
	Sim *sched.Sim
	W   *simnet.World
	R   *Result
	Opt RunOpt
	// After runs on the root goroutine when the schedule loop ended, before
	// cleanup; everything else is blocked.
	After func(out sched.Outcome)
	// OnHang is called when nothing could move for the whole horizon; the
	// default reports machinery trouble, properties that promise a return
	// turn it into a violation.
	OnHang func(info string)
	// OnStandstill, when set, judges a run that used up its decision budget.
	OnStandstill func(info string)
}

type seededReader struct{ s uint64 }

func (r *seededReader) Read(p []byte) (int, error) {
	for i := range p {
		r.s = choice.SplitMix(r.s, 1)
		p[i] = byte(r.s)
	}
	return len(p), nil
}

// WorkerSites / WorkerPairs accumulate, per worker process, the yield sites
// reached and the ordered site pairs seen (a goroutine released at site A while
// another was parked at site B); emitted once at the end of the chunk.
var WorkerSites = map[string]struct{}{}
var WorkerPairs = map[string]struct{}{}

var hookInstalled bool
var curSim *sched.Sim

func installHook() {
	if hookInstalled {
		return
	}
	hookInstalled = true
	simrt.Hook = func(site string) {
		if s := curSim; s != nil {
			s.Yield(site)
		}
	}
	simrt.SelHook = func(site string, n int) int {
		if s := curSim; s != nil {
			return s.Sel(site, n)
		}
		return 0
	}
}

// Bubble runs one engine-A scenario: setup draws the scenario on the root
// goroutine and returns the main workload function.
func Bubble(t *testing.T, c *choice.Stream, r *Result, opt RunOpt, setup func(e *Env) func()) {
	installHook()
	uuid.SetRand(&seededReader{s: c.Seed})
	defer uuid.SetRand(nil)
	leak := ""
	// A subtest of its own: when the race detector reports something during
	// the bubble, the testing package fails the bubble's test and FailNow's
	// its parent, which must not be the worker's main test function.
	t.Run("bubble", func(t *testing.T) {
		defer func() {
			if p := recover(); p != nil {
				leak = fmt.Sprint(p) + "\n" + string(debug.Stack())
			}
		}()
		synctest.Test(t, func(t *testing.T) {
			sim := sched.New(c)
			sim.KeepTrace = opt.KeepTrace
			e := &Env{T: t, C: c, Sim: sim, W: simnet.NewWorld(sim), R: r, Opt: opt}
			curSim = sim
			var main func()
			func() {
				defer func() {
					if p := recover(); p != nil {
						r.Harness("setup panic: %v\n%s", p, debug.Stack())
					}
				}()
				main = setup(e)
			}()
			if main == nil {
				curSim = nil
				return
			}
			out := sim.Run(func() {
				defer func() {
					if p := recover(); p != nil {
						r.Violate("panic", "panic:"+firstLibFrame(string(debug.Stack())), "panic in workload goroutine: %v\n%s", p, debug.Stack())
					}
				}()
				main()
			})
			r.Steps = sim.Step
			r.Switches = sim.Switches
			r.SimMs = sim.Now().Milliseconds()
			r.Digest = fmt.Sprintf("%016x", sim.Digest())
			r.Sites = len(sim.SiteHits)
			r.Pairs = len(sim.PairHits)
			if opt.KeepTrace {
				r.Trace = sim.TraceLog
			}
			for s := range sim.SiteHits {
				WorkerSites[s] = struct{}{}
			}
			for s := range sim.PairHits {
				WorkerPairs[s] = struct{}{}
			}
			if sim.AmbigSpawn > 0 {
				r.Probe("ambiguous_spawn")
			}
			for _, cn := range e.W.Conns {
				for k, v := range cn.Fired {
					for i := 0; i < v; i++ {
						r.Fire(k)
					}
				}
			}
			switch out {
			case sched.Hang:
				r.Probe("hang")
				buf := make([]byte, 1<<16)
				buf = buf[:runtime.Stack(buf, true)]
				r.HangInfo = fmt.Sprintf("parked: %v\n%s", sim.Parked(), strings.Join(LibGoroutines(string(buf)), "\n\n"))
			case sched.Budget:
				if e.OnStandstill != nil {
					// e.g. a client polling for an answer that cannot come: the run
					// is going nowhere although steps are being taken
					e.OnStandstill(fmt.Sprintf("decision budget exhausted after %d steps; parked: %v", sim.Step, sim.Parked()))
				} else {
					r.Harness("decision budget exhausted after %d steps; parked: %v", sim.Step, sim.Parked())
				}
			}
			if out == sched.Done {
				sim.Quiesce(5000)
			}
			if e.After != nil {
				e.After(out)
			}
			if out == sched.Hang {
				if e.OnHang != nil {
					e.OnHang(r.HangInfo)
				} else {
					r.Harness("simulated system made no progress for %v of simulated time: %s", sim.Horizon, r.HangInfo)
				}
			}
			r.frozen = true
			curSim = nil
			// cleanup: let everything finish
			e.W.Cleanup()
			sim.Release()
			synctest.Wait()
		})
	})
	curSim = nil
	if leak != "" {
		if r.Outcome == "" || r.Outcome == "ok" {
			r.Harness("bubble did not end cleanly: %s", leak)
		}
		r.Probe("bubble_leak")
		bubbleLeaked = true
	}
}

// bubbleLeaked is set when goroutines of a bubble could not be reclaimed; the
// worker process exits after reporting the run.
var bubbleLeaked bool

// firstLibFrame extracts the innermost ch-go function of a stack dump.
func firstLibFrame(stack string) string {
	for _, line := range strings.Split(stack, "\n") {
		line = strings.TrimSpace(line)
		if strings.HasPrefix(line, "github.com/ClickHouse/ch-go") && !strings.Contains(line, "/simrt.") {
			if i := strings.IndexByte(line, '('); i > 0 {
				line = line[:i]
			}
			return strings.TrimPrefix(line, "github.com/ClickHouse/ch-go")
		}
	}
	return "?"
}

// lastLibFrame extracts the outermost ch-go function of a stack dump.
func lastLibFrame(stack string) string {
	out := "?"
	for _, line := range strings.Split(stack, "\n") {
		line = strings.TrimSpace(line)
		if strings.HasPrefix(line, "github.com/ClickHouse/ch-go") && !strings.Contains(line, "/simrt.") {
			if i := strings.IndexByte(line, '('); i > 0 {
				line = line[:i]
			}
			out = strings.TrimPrefix(line, "github.com/ClickHouse/ch-go")
		}
	}
	return out
}

// LibGoroutines returns the stacks of goroutines (other than the caller) that
// have a ch-go library frame, for leak oracles.
func LibGoroutines(all string) []string {
	var out []string
	for _, g := range strings.Split(all, "\n\n") {
		if !strings.Contains(g, "github.com/ClickHouse/ch-go") {
			continue
		}
		out = append(out, g)
	}
	return out
}

// Since is a helper for simulated durations.
func Since(t time.Time) time.Duration { return time.Since(t) }

// HangJudge gives fault-free scenarios a verdict when the simulated system
// stops moving: if what the client wrote does not parse, or ends in the middle
// of a packet while the client waits for an answer, the server can never
// respond, and that is the library's doing, not the simulator's.
func HangJudge(e *Env, r *Result, conn *simnet.Conn, srv *simnet.Server, serverRev int) {
	judge := func(info string) {
		out := conn.OutCopy()
		p := refproto.ClientParser{ServerRev: serverRev}
		for {
			pkt, err := p.Next(out)
			if err != nil {
				r.Violate("malformed-stream", "malformed", "the exchange came to a standstill and the client stream does not parse: %v (server: %v)\n%s", err, srv.Parser.Err, info)
				return
			}
			if pkt == nil {
				break
			}
		}
		if p.Pos != len(out) {
			r.Violate("malformed-stream", "incomplete", "the exchange came to a standstill: the client waits for the server, but the %d bytes it wrote end %d bytes into a packet that is never completed (server: %v)\n%s", len(out), len(out)-p.Pos, srv.Parser.Err, info)
			return
		}
		r.Harness("simulated system made no progress: %s", info)
	}
	e.OnHang, e.OnStandstill = judge, judge
}

// lateCtx is a context with a deadline whose Done channel is closed by the
// simulator, at a decision of its choosing at or after the deadline. The timer
// inside a context.WithTimeout runs in a goroutine of the standard library that
// the scheduler does not control, so that with two timers due at the same
// instant (the connection's read deadline, armed from ctx.Deadline(), and the
// context's own) the context always appears to win. Real timers promise no such
// order: either may be observed first.
type lateCtx struct {
	context.Context
	dl   time.Time
	done chan struct{}
	mu   sync.Mutex
	err  error
}

func (c *lateCtx) Deadline() (time.Time, bool) { return c.dl, true }
func (c *lateCtx) Done() <-chan struct{}       { return c.done }
func (c *lateCtx) Err() error {
	c.mu.Lock()
	defer c.mu.Unlock()
	return c.err
}
func (c *lateCtx) finish(err error) {
	c.mu.Lock()
	if c.err == nil {
		c.err = err
		close(c.done)
	}
	c.mu.Unlock()
}

// NewLateCtx must be called inside the bubble. The returned cancel function
// ends the context early (context.Canceled).
func NewLateCtx(e *Env, d time.Duration) (context.Context, context.CancelFunc) {
	c := &lateCtx{Context: context.Background(), dl: time.Now().Add(d), done: make(chan struct{})}
	at := e.Sim.Now() + d
	e.Sim.AddEnv(&sched.EnvFunc{N: "ctx-deadline", E: func() bool { return c.Err() == nil && e.Sim.Now() >= at }, R: func() { c.finish(context.DeadlineExceeded) }})
	e.Sim.WakeAfter(d)
	return c, func() { c.finish(context.Canceled) }
}
