package props

import (
	"context"
	"errors"
	"fmt"
	"io"
	"reflect"
	"strings"
	"testing"
	"time"

	"github.com/ClickHouse/ch-go"
	"github.com/ClickHouse/ch-go/proto"

	"chgosim/choice"
	"chgosim/gen"
	"chgosim/refproto"
	"chgosim/simnet"
)

func init() {
	Register(&Prop{
		ID: "C09", Engine: "A", Quick: 8000, Thorough: 100000, Level: "exploration",
		Rule: "each run = one streamed INSERT: 1..4 input columns of drawn types (fixed-width ones sent by reference, FixedString, Bool, String, LowCardinality, arrays, nullables, maps, tuples), initial rows zero or not, and a drawn callback history over {append without reset, reset+append, overwrite in place, return nil unchanged, io.EOF after reset, io.EOF with leftover rows, wrapped io.EOF, other error}; the reference server parses what arrives, sends Progress while the client streams; compression mode, revisions, back-pressure window and the goroutine/delivery schedule are drawn; no transport faults; oracle = the blocks the server received equal the model's snapshots taken when each round began, in order, followed by exactly one terminator (none required after a callback error, which must fail the query); distinct = schedule digests; non-trivial = at least two blocks or a callback error",
		Run:  runC09,
	})
}

type c09Op struct {
	Op   string
	Vals [][]any // appended or replacing values, per column
	Idx  int     // overwrite: row index
}

// c09Model follows the statement: a block per round holding the contents at
// the moment the round began.
type c09Model struct {
	state  [][]any
	blocks [][][]any
	failed bool
	ended  bool
}

func (m *c09Model) snap() {
	s := make([][]any, len(m.state))
	for i := range m.state {
		s[i] = append([]any{}, m.state[i]...)
	}
	m.blocks = append(m.blocks, s)
}

func (m *c09Model) rows() int {
	if len(m.state) == 0 {
		return 0
	}
	return len(m.state[0])
}

func runC09(t *testing.T, c *choice.Stream, r *Result, opt RunOpt) {
	Bubble(t, c, r, opt, func(e *Env) func() {
		cf := DrawConf(c)
		cols := DrawCols(c, "in", 4, 2)
		// now and then one block of more than a megabyte of incompressible data:
		// whatever is buffered, chained or framed by size gets past its limits
		huge := c.Bool("huge", 1, 100)
		if huge {
			t := []string{"FixedString(16)", "UUID", "Int256"}[c.Draw("huge.type", 3)]
			rt, err := refproto.ParseType(t)
			if err != nil {
				panic(err)
			}
			cols = []ColSpec{{Name: "c0", Type: t, RT: rt}}
		}
		var lib []proto.Column
		var input proto.Input
		for _, cs := range cols {
			col, err := gen.NewCol(cs.Type)
			if err != nil {
				panic(err)
			}
			lib = append(lib, col)
			input = append(input, proto.InputColumn{Name: cs.Name, Data: col})
		}
		// input columns that were built by inference (results of a SELECT handed
		// on to an INSERT): the server may spell their type differently, and the
		// rows they hold when Do starts are the first block all the same
		autoIn := !huge && c.Bool("in.auto", 1, 5)
		hdrType := make([]string, len(cols))
		for i, cs := range cols {
			hdrType[i] = cs.Type
			if !autoIn || strings.Contains(cs.Type, "LowCardinality") || strings.Contains(cs.Type, "Enum") || strings.Contains(cs.Type, "JSON") {
				continue // an inferred column is neither prepared nor given a state prefix by the client
			}
			a := new(proto.ColAuto)
			if a.Infer(proto.ColumnType(cs.Type)) != nil {
				continue
			}
			if reflect.TypeOf(a.Data) != reflect.TypeOf(lib[i]) {
				continue // the bridge fills the column the generator knows
			}
			lib[i], input[i].Data = a.Data, a
			if strings.Contains(cs.Type, "DateTime") && !strings.Contains(cs.Type, "Tuple(") && !strings.Contains(cs.Type, "Map(") {
				hdrType[i] = gen.ServerSpelling(c, cs.Type)
			}
			r.Fire("inferred_input_column")
		}
		rows0 := 0
		if c.Bool("initial", 1, 2) {
			rows0 = c.Range("rows0", 1, 6)
			if c.Bool("rows0.big", 1, 10) {
				rows0 = c.Pick("rows0.bigrows", 600, 3000, 9000)
			}
		}
		if huge {
			rows0 = c.Pick("rows0.huge", 40000, 70000, 140000)
		}
		initial := drawRoundVals(c, cols, rows0)
		swapObjects := c.Bool("swap.objects", 1, 4)
		// ---- the callback history ----
		maxRounds := 5
		if opt.Tier == "thorough" {
			maxRounds = 12
		}
		n := c.Range("rounds", 1, maxRounds)
		var ops []c09Op
		for i := 0; i < n; i++ {
			last := i == n-1
			var op c09Op
			if last {
				op.Op = []string{"eof", "eof-tail", "eof-tail-new", "wrapped-eof", "wrapped-eof-tail", "error"}[c.Weighted("op.last", 4, 2, 2, 1, 1, 2)]
			} else {
				op.Op = []string{"append", "reset-append", "overwrite", "nil"}[c.Weighted("op", 3, 5, 2, 1)]
			}
			switch op.Op {
			case "append", "reset-append", "eof-tail-new":
				rows := c.Range("op.rows", 1, 5)
				if c.Bool("op.bigrows", 1, 8) {
					// blocks big enough to cross buffer and frame-size thresholds (tens of KiB and more)
					rows = c.Pick("op.rows.big", 600, 3000, 9000)
				}
				op.Vals = drawRoundVals(c, cols, rows)
			case "overwrite":
				op.Vals = drawRoundVals(c, cols, 1)
				op.Idx = c.Draw("op.idx", 8)
			}
			ops = append(ops, op)
		}
		// ---- the model (from the statement) ----
		m := &c09Model{state: make([][]any, len(cols))}
		for i := range cols {
			m.state[i] = append([]any{}, initial[i]...)
		}
		apply := func(op c09Op) (ret string) {
			switch op.Op {
			case "append":
				for i := range cols {
					m.state[i] = append(m.state[i], op.Vals[i]...)
				}
			case "reset-append", "eof-tail-new":
				for i := range cols {
					m.state[i] = append([]any{}, op.Vals[i]...)
				}
			case "overwrite":
				if m.rows() > 0 {
					for i := range cols {
						m.state[i][op.Idx%m.rows()] = op.Vals[i][0]
					}
				}
			case "eof", "wrapped-eof":
				for i := range cols {
					m.state[i] = nil
				}
			}
			switch op.Op {
			case "eof", "eof-tail", "eof-tail-new", "wrapped-eof", "wrapped-eof-tail":
				return "eof"
			case "error":
				return "error"
			}
			return "nil"
		}
		next := 0
		call := func() string {
			if next >= len(ops) {
				for i := range cols {
					m.state[i] = nil
				}
				return "eof"
			}
			op := ops[next]
			next++
			return apply(op)
		}
		start := "nil"
		if rows0 == 0 {
			start = call() // the callback provides the first contents
		}
		for ret := start; ; {
			if ret == "error" {
				m.failed = true
				break
			}
			if ret == "eof" {
				if m.rows() > 0 {
					m.snap()
				}
				m.ended = true
				break
			}
			m.snap()
			ret = call()
		}
		// ---- the real callback ----
		rec := &Recorder{}
		played := 0
		overwriteOK := true
		onInput := func(ctx context.Context) error {
			_ = rec.hit("input")
			for i := range lib {
				if a, ok := input[i].Data.(*proto.ColAuto); ok {
					lib[i] = a.Data // whatever inference has made of it
				}
			}
			if played >= len(ops) {
				for _, col := range lib {
					col.Reset()
				}
				return io.EOF
			}
			op := ops[played]
			played++
			switch op.Op {
			case "append":
				for i, col := range lib {
					if err := gen.Fill(col, cols[i].RT, op.Vals[i]); err != nil {
						return err
					}
				}
			case "reset-append", "eof-tail-new":
				for i, col := range lib {
					if swapObjects {
						// the callback hands over a batch by replacing the column object
						// (double buffering, batches by value) instead of refilling it
						nc, err := gen.NewCol(cols[i].Type)
						if err != nil {
							return err
						}
						lib[i], input[i].Data, col = nc, nc, nc
					} else {
						col.Reset()
					}
					if err := gen.Fill(col, cols[i].RT, op.Vals[i]); err != nil {
						return err
					}
				}
			case "overwrite":
				rows := lib[0].Rows()
				if rows > 0 {
					for i, col := range lib {
						if !gen.Overwrite(col, cols[i].RT, op.Idx%rows, op.Vals[i][0]) {
							// no in-place form: rebuild the column with the same contents
							overwriteOK = false
							cur, err := gen.ReadAll(col, cols[i].RT, rows)
							if err != nil {
								return err
							}
							cur[op.Idx%rows] = op.Vals[i][0]
							col.Reset()
							if err := gen.Fill(col, cols[i].RT, cur); err != nil {
								return err
							}
						}
					}
				}
			case "eof", "wrapped-eof":
				for _, col := range lib {
					col.Reset()
				}
			}
			switch op.Op {
			case "eof", "eof-tail", "eof-tail-new":
				return io.EOF
			case "wrapped-eof", "wrapped-eof-tail":
				return fmt.Errorf("no more rows: %w", io.EOF)
			case "error":
				return ErrInjected
			}
			return nil
		}
		for i, col := range lib {
			if err := gen.Fill(col, cols[i].RT, initial[i]); err != nil {
				panic(err)
			}
		}
		q := ch.Query{Body: "INSERT INTO t VALUES", Input: input, OnInput: onInput}
		// ---- server ----
		nop := func(*refproto.ClientPacket) []byte { return nil }
		script := cf.HandshakeSteps()
		script = append(script, simnet.Step{Label: "query", OnPacket: nop}, simnet.Step{Label: "ext-end", OnPacket: nop})
		hdr := &refproto.Block{BucketNum: -1}
		for _, cs := range cols {
			hdr.Cols = append(hdr.Cols, refproto.Column{Name: cs.Name, Type: hdrType[len(hdr.Cols)], Vals: []any{}})
		}
		script = append(script, simnet.Step{Label: "schema", Send: (&SPacket{Kind: "data", Block: hdr}).Encode(cf)})
		busy := c.Bool("progress", 1, 2)
		chatty := c.Bool("logs", 1, 3)
		e.Sim.DrawStrategy()
		e.Sim.StallProb = 0
		e.Sim.MaxSteps = 400000
		e.W.DeliverMode = c.Weighted("deliver", 3, 1, 3)
		srv := simnet.NewServer(cf.ServerRev, script)
		// The server does not know how many blocks will come: it acknowledges
		// each with Progress (when busy) and ends the query at the terminator.
		srv.Auto = func(s *simnet.Server, cn *simnet.Conn, p *refproto.ClientPacket) {
			if p.Kind != refproto.PData || p.Block == nil {
				return
			}
			if len(p.Block.Cols) == 0 && p.Block.Rows == 0 {
				cn.Enqueue((&SPacket{Kind: "eos"}).Encode(cf))
				return
			}
			if busy {
				cn.Enqueue((&SPacket{Kind: "progress", Prog: refproto.Progress{WroteRows: uint64(p.Block.Rows), WroteBytes: 10}}).Encode(cf))
			}
			if chatty && cf.Negotiated() >= refproto.RevServerLogs {
				// ... and tells about each block in two lines of its log
				cn.Enqueue((&SPacket{Kind: "log", Logs: []LogRow{
					{Time: 1700000000, Micro: 1, Host: "h", QueryID: "q", Thread: 1, Priority: 6, Source: "ins", Text: "block received"},
					{Time: 1700000000, Micro: 2, Host: "h", QueryID: "q", Thread: 1, Priority: 7, Source: "ins", Text: "block written"}}}).Encode(cf))
			}
		}
		conn := e.W.NewConn(srv)
		HangJudge(e, r, conn, srv, cf.ServerRev)
		conn.Window = c.Pick("window", 0, 0, 32, 512)
		if conn.Window > 0 && c.Bool("peer.pause", 1, 3) {
			// a server too busy to read for a while, longer than the client's read
			// timeout: the sender sits in Write meanwhile, and nothing is wrong
			conn.PauseReadAt = c.Range("peer.pause.at", 150, 3000)
			conn.PauseFor = []time.Duration{cf.EffReadTimeout() / 2, cf.EffReadTimeout() * 3 / 2, cf.EffReadTimeout() * 4}[c.Draw("peer.pause.for", 3)]
		}
		var opNames []string
		for _, op := range ops {
			opNames = append(opNames, op.Op)
		}
		r.Cell = fmt.Sprintf("comp%d/rows0=%v", cf.Comp, rows0 > 0)
		r.Sample = map[string]any{"cols": colNames(cols), "rows0": rows0, "ops": opNames, "expected_blocks": len(m.blocks), "fails": m.failed, "compression": cf.Comp.String(), "client_rev": cf.ClientRev, "server_rev": cf.ServerRev, "window": conn.Window}
		r.NonTriv = len(m.blocks) >= 2 || m.failed
		return func() {
			ctx := context.Background()
			cl, err := ch.Connect(ctx, conn, cf.Options())
			if err != nil {
				r.Harness("fault-free handshake failed: %v", err)
				return
			}
			derr := cl.Do(ctx, q)
			if !overwriteOK {
				r.Probe("overwrite_by_rebuild")
			}
			// what the server received after the external-data terminator
			out := conn.OutCopy()
			p := refproto.ClientParser{ServerRev: cf.ServerRev}
			var data []*refproto.ClientPacket
			seenQuery, extEnd := false, false
			for {
				pk, perr := p.Next(out)
				if perr != nil {
					if m.failed {
						break // after a callback error the client cancels and closes; what it writes then is C10's subject
					}
					r.Violate("malformed-stream", "malformed", "client stream does not parse: %v", perr)
					return
				}
				if pk == nil {
					break
				}
				switch {
				case pk.Kind == refproto.PQuery:
					seenQuery = true
				case pk.Kind == refproto.PData && seenQuery && !extEnd:
					extEnd = true
				case pk.Kind == refproto.PData:
					data = append(data, pk)
				}
			}
			types := fmt.Sprint(colNames(cols))
			check := func(i int, want [][]any) bool {
				if i >= len(data) {
					r.Violate("missing-block", "missing-block", "the server received %d blocks, the model expects block %d of %d (columns %s, ops %v); Do returned %v", len(data), i, len(m.blocks), types, opNames, derr)
					return false
				}
				b := data[i].Block
				if len(b.Cols) == 0 && b.Rows == 0 {
					r.Violate("missing-block", "rows-not-sent", "the server received the terminator where the model expects block %d of %d: rows present when the round began were never sent (columns %s, ops %v, rows0 %d)", i, len(m.blocks), types, opNames, rows0)
					return false
				}
				if len(b.Cols) != len(cols) {
					r.Violate("block-shape", "block-shape", "block %d has %d columns, want %d", i, len(b.Cols), len(cols))
					return false
				}
				for ci, cs := range cols {
					w := want[ci]
					if w == nil {
						w = []any{}
					}
					if !reflect.DeepEqual(b.Cols[ci].Vals, w) {
						r.Violate("block-contents", "contents:"+kindName(cs.RT), "block %d column %d (%s) arrived as\n %.500s\nbut the column held\n %.500s\nwhen that round began (ops %v, rows0 %d)", i, ci, cs.Type, fmtVals(b.Cols[ci].Vals), fmtVals(w), opNames, rows0)
						return false
					}
				}
				return true
			}
			for i, want := range m.blocks {
				if !check(i, want) {
					return
				}
			}
			if m.failed {
				if derr == nil || !errors.Is(derr, ErrInjected) {
					r.Violate("callback-error-lost", "callback-error", "the input callback failed but Do returned %v", derr)
				}
				if len(data) > len(m.blocks) {
					r.Violate("sent-after-error", "sent-after-error", "%d data packets were sent although the callback failed after %d blocks", len(data), len(m.blocks))
				}
				return
			}
			if derr != nil {
				r.Violate("fault-free-failure", "do-failed", "streamed insert failed without any fault: %v (ops %v, columns %s)", derr, opNames, types)
				return
			}
			if len(data) != len(m.blocks)+1 {
				r.Violate("terminator", "terminator-count", "the server received %d data packets after the external terminator, want %d blocks and exactly one terminator", len(data), len(m.blocks))
				return
			}
			if tb := data[len(data)-1].Block; len(tb.Cols) != 0 || tb.Rows != 0 {
				r.Violate("terminator", "terminator-shape", "the last packet is not an empty block (%d columns, %d rows)", len(tb.Cols), tb.Rows)
			}
		}
	})
}

func kindName(t *refproto.Type) string {
	switch t.Kind {
	case refproto.KLowCard:
		return "LowCardinality"
	case refproto.KArray:
		return "Array(" + kindName(t.Elems[0]) + ")"
	case refproto.KNullable:
		return "Nullable"
	case refproto.KMap:
		return "Map"
	case refproto.KTuple:
		return "Tuple"
	}
	return "scalar"
}
