package props

import (
	"fmt"
	"hash/fnv"
	"reflect"
	"runtime/debug"
	"strings"
	"testing"

	"github.com/ClickHouse/ch-go/proto"

	"chgosim/choice"
	"chgosim/gen"
	"chgosim/refproto"
	"chgosim/simio"
)

func init() {
	Register(&Prop{
		ID: "C16", Engine: "B", AltEvery: 4, Quick: 30000, Thorough: 1000000, Level: "exploration",
		Rule: "each history = one column of a drawn type/composition and a plain list-of-values model, driven through up to 12 (thorough: 30) drawn steps over {append rows (Append or AppendArr), overwrite a row in place, decode a 0..6-row block through proto.Results into the column as it stands, Reset, Prepare, EncodeColumn, WriteColumn+Flush, EncodeRawBlock, Infer(own type), Reset+DecodeColumn of valid data, Reset+DecodeColumn of a stream that fails at a drawn byte (cut or corrupted) followed by Reset}; the failing decode is the crash of this tiny store and Reset its recovery; after every encode step the bytes are decoded by the independent codec and must equal the model (same rows again when nothing changed, appended rows exactly once); after every Reset+Decode the column read through Row(i) must equal the decoded values and what a fresh column gives; distinct = distinct history digests; non-trivial = at least two encode/decode steps with a mutation in between",
		Run:  runC16,
	})
}

// c16AutoGroups: types of one kind whose definitions differ. An inferred
// column (proto.ColAuto, what Results.Auto binds) that is used again for
// another query meets them one after the other.
var c16AutoGroups = [][]string{
	{"DateTime64(0)", "DateTime64(3)", "DateTime64(6)", "DateTime64(9)", "DateTime64(3, 'UTC')", "DateTime64(3, 'Asia/Tokyo')", "DateTime64(6, 'Europe/Berlin')", "DateTime64(9, 'America/New_York')"},
	{"DateTime", "DateTime('UTC')", "DateTime('Asia/Tokyo')", "DateTime('Europe/Berlin')"},
	{"Enum8('a' = 1, 'b' = 2)", "Enum8('x' = 1, 'y' = 2)", "Enum8('b' = 1, 'a' = 2, 'c' = 3)", "Enum8('neg' = -128, 'zero' = 0, 'max' = 127)", "Int8"},
	{"Enum16('lo' = -32768, 'a' = 1, 'big' = 300)", "Enum16('p' = 1, 'q' = 300)", "Enum16('a' = 300, 'big' = 1)", "Int16"},
	{"FixedString(1)", "FixedString(4)", "FixedString(16)", "FixedString(5)"},
	{"Decimal(9, 2)", "Decimal32(4)", "Decimal(18, 4)", "Decimal64(2)", "Decimal(38, 10)", "Decimal(76, 20)"},
	{"Interval Second", "Interval Day", "Interval Year"},
}

// rowsShown renders every row of a column through its own Row accessor.
func rowsShown(col any, rows int) []string {
	if a, ok := col.(*proto.ColAuto); ok {
		col = a.Data
	}
	m := reflect.ValueOf(col).MethodByName("Row")
	if !m.IsValid() {
		return nil
	}
	out := make([]string, rows)
	for i := range out {
		out[i] = fmt.Sprintf("%v", m.Call([]reflect.Value{reflect.ValueOf(i)})[0].Interface())
	}
	return out
}

// runC16Auto: one inferred column reused for blocks of several definitions;
// after Reset and Infer (in either order) it must read a block exactly as a
// fresh one does.
func runC16Auto(c *choice.Stream, r *Result) {
	h := fnv.New64a()
	var names []string
	defer func() {
		if p := recover(); p != nil {
			r.Violate("panic", "panic:"+firstLibFrame(string(debug.Stack())), "inferred column, history %v: panic: %v\n%.1200s", names, p, debug.Stack())
		}
		r.Digest = fmt.Sprintf("%016x", h.Sum64())
		r.Cell = "auto-reuse"
		r.Sample = map[string]any{"family": "inferred column reused", "history": names}
	}()
	group := c16AutoGroups[c.Draw("auto.group", len(c16AutoGroups))]
	wrap := []string{"%s", "%s", "Array(%s)", "Nullable(%s)", "Map(String, %s)", "Array(Nullable(%s))"}[c.Draw("auto.wrap", 6)]
	used := new(proto.ColAuto)
	n := c.Range("auto.steps", 2, 4)
	vr := c.Sub("vals")
	for i := 0; i < n; i++ {
		ty := fmt.Sprintf(wrap, group[c.Draw("auto.type", len(group))])
		if c.Bool("auto.other", 1, 6) {
			ty = gen.DrawType(c, 1) // something else entirely in between
		}
		if strings.Contains(ty, "LowCardinality") || strings.Contains(ty, "JSON") {
			continue // a state prefix is read by the caller of DecodeColumn, not by the column
		}
		rt, err := refproto.ParseType(ty)
		if err != nil {
			panic(err)
		}
		fresh := new(proto.ColAuto)
		if err := fresh.Infer(proto.ColumnType(ty)); err != nil {
			continue // not a type inference serves
		}
		rows := c.Range("auto.rows", 1, 5)
		vals := gen.Values(vr, rt, rows)
		var w refproto.W
		if err := refproto.EncodeData(&w, rt, vals); err != nil {
			panic(err)
		}
		fmt.Fprintf(h, "%s|%x|", ty, w.B)
		inferFirst := c.Bool("auto.order", 1, 2)
		names = append(names, ty)
		if used.Data != nil && !inferFirst {
			used.Reset()
		}
		if err := used.Infer(proto.ColumnType(ty)); err != nil {
			r.Violate("infer-failed", "auto-infer", "inferred column, history %v: Infer(%q): %v", names, ty, err)
			return
		}
		if inferFirst {
			used.Reset()
		}
		if err := fresh.DecodeColumn(proto.NewReader(&simio.FaultyReader{Data: w.B}), rows); err != nil {
			r.Harness("fresh inferred column cannot decode valid %s: %v", ty, err)
			return
		}
		if err := used.DecodeColumn(proto.NewReader(&simio.FaultyReader{Data: w.B}), rows); err != nil {
			r.Violate("decode-differs", "auto-reuse-decode:"+kindName(rt), "inferred column, history %v: the reused column fails to decode a valid block a fresh one reads: %v", names, err)
			return
		}
		if used.Rows() != fresh.Rows() {
			r.Violate("decode-differs", "auto-reuse-rows:"+kindName(rt), "inferred column, history %v: the reused column has %d rows, a fresh one %d", names, used.Rows(), fresh.Rows())
			return
		}
		got, want := rowsShown(used, rows), rowsShown(fresh, rows)
		if !reflect.DeepEqual(got, want) {
			r.Violate("decode-differs", "auto-reuse-values:"+kindName(rt), "inferred column, history %v: after Reset and Infer(%q) the reused column reads the block as %.300v, a fresh one as %.300v", names, ty, got, want)
			return
		}
		if i > 0 {
			r.NonTriv = true
			r.Fire("auto_reuse")
		}
	}
}

func runC16(t *testing.T, c *choice.Stream, r *Result, opt RunOpt) {
	if c.Bool("family.auto", 1, 8) {
		runC16Auto(c, r)
		return
	}
	cs := DrawCols(c, "col", 1, 2)[0]
	col, err := gen.NewCol(cs.Type)
	if err != nil {
		panic(err)
	}
	rev := proto.Version
	maxSteps := 12
	if opt.Tier == "thorough" {
		maxSteps = 30
	}
	n := c.Range("steps", 2, maxSteps)
	var model []any
	var names []string
	h := fnv.New64a()
	fmt.Fprintf(h, "%s", cs.Type)
	vr := c.Sub("vals")
	observed, mutated := 0, false
	fail := func(clause, key, f string, a ...any) {
		r.Violate(clause, key+":"+kindName(cs.RT), "column %s, history %v: %s", cs.Type, names, fmt.Sprintf(f, a...))
	}
	checkBytes := func(what string, prefixAndData []byte) bool {
		rr := &refproto.R{B: prefixAndData}
		if len(model) > 0 {
			if err := refproto.DecodePrefix(rr, cs.RT); err != nil {
				fail("encode-mismatch", "encode-undecodable", "%s produced bytes whose state prefix the reference cannot read: %v", what, err)
				return false
			}
		}
		vals, err := refproto.DecodeData(rr, cs.RT, len(model))
		if err != nil {
			fail("encode-mismatch", "encode-undecodable", "%s produced %d bytes the reference cannot decode as %d rows: %v", what, len(prefixAndData), len(model), err)
			return false
		}
		if rr.Left() != 0 {
			fail("encode-mismatch", "encode-extra-bytes", "%s produced %d bytes more than %d rows need", what, rr.Left(), len(model))
			return false
		}
		want := model
		if want == nil {
			want = []any{}
		}
		if !reflect.DeepEqual(vals, want) {
			i := 0
			for i < len(vals) && i < len(want) && reflect.DeepEqual(vals[i], want[i]) {
				i++
			}
			fail("encode-mismatch", "encode-values", "%s encodes rows that differ from the column's logical contents at row %d of %d:\n got %.300s\nwant %.300s", what, i, len(want), fmtVals(vals[i:min(i+3, len(vals))]), fmtVals(want[i:min(i+3, len(want))]))
			return false
		}
		observed++
		return true
	}
	defer func() {
		if p := recover(); p != nil {
			fail("panic", "panic:"+firstLibFrame(string(debug.Stack())), "panic: %v\n%.1200s", p, debug.Stack())
		}
		r.Digest = fmt.Sprintf("%016x", h.Sum64())
		r.NonTriv = observed >= 2 && mutated
		r.Cell = kindName(cs.RT)
		r.Sample = map[string]any{"type": cs.Type, "history": names}
	}()
	// a LowCardinality column whose dictionary outgrows its key width in the
	// course of its life: a small prepare, then a prepare with several hundred
	// distinct values, and only then the drawn history
	var forced []string
	if strings.Contains(cs.Type, "LowCardinality") && c.Bool("lc.growth", 1, 6) {
		forced = []string{"append", "prepare", "append+", "prepare"}
		n += len(forced)
	}
	for i := 0; i < n && r.Outcome != "violation"; i++ {
		forceWide := false
		if len(forced) > 0 {
			forceWide = forced[0] == "append+"
		}
		op := []string{"append", "reset", "prepare", "encode", "write", "rawblock", "infer", "decode", "faildecode", "overwrite", "blockdecode", "reinfer"}[c.Weighted("op", 6, 2, 1, 5, 3, 2, 1, 3, 2, 2, 2, 1)]
		if len(forced) > 0 {
			op = strings.TrimSuffix(forced[0], "+")
			forced = forced[1:]
		}
		fmt.Fprintf(h, "|%s", op)
		switch op {
		case "append":
			k := c.Range("append.n", 1, 5)
			if forceWide {
				k = 600 // gen.Values builds a dictionary of 254..553 entries for half of such columns
			} else if c.Bool("append.many", 1, 12) {
				k = c.Pick("append.big", 250, 300, 1000)
			} else if strings.Contains(cs.Type, "LowCardinality") && c.Bool("append.many.lc", 1, 4) {
				// enough rows for a dictionary that needs wider keys than before
				k = c.Pick("append.big.lc", 260, 300, 700)
			}
			names = append(names, fmt.Sprintf("append(%d)", k))
			vals := gen.Values(vr, cs.RT, k)
			viaArr := false
			if c.Bool("append.arr", 1, 3) {
				ok, err := gen.AppendArr(col, cs.RT, vals)
				if err != nil {
					panic(err)
				}
				viaArr = ok
			}
			if viaArr {
				names[len(names)-1] = fmt.Sprintf("appendarr(%d)", k)
				r.Fire("append_arr")
			} else if err := gen.Fill(col, cs.RT, vals); err != nil {
				panic(err)
			}
			model = append(model, vals...)
			mutated = true
		case "overwrite":
			// the caller edits a row in place where the column's storage allows it
			if len(model) == 0 {
				break
			}
			i := c.Draw("overwrite.i", len(model))
			v := gen.Values(vr, cs.RT, 1)[0]
			if gen.Overwrite(col, cs.RT, i, v) {
				names = append(names, fmt.Sprintf("overwrite(%d)", i))
				model[i] = v
				mutated = true
			}
		case "reset":
			names = append(names, "reset")
			col.Reset()
			model = nil
			mutated = true
		case "prepare":
			names = append(names, "prepare")
			if p, ok := col.(proto.Preparable); ok {
				if err := p.Prepare(); err != nil {
					fail("prepare-failed", "prepare-failed", "Prepare: %v", err)
				}
			}
		case "reinfer":
			// the column object is reused for a result of another definition of the
			// same kind (the type arrives with every block): Reset, then Infer(other)
			inf, ok := col.(proto.Inferable)
			var alts []string
			switch {
			case strings.HasPrefix(cs.Type, "Enum8("), strings.HasPrefix(cs.Type, "Enum16("):
				// same width or the other one: the object does not care which enum it serves next
				alts = []string{"Enum8('a' = 1, 'b' = 2)", "Enum8('x' = 1, 'y' = 2)", "Enum8('neg' = -128, 'zero' = 0, 'max' = 127, 'x y' = 5)", "Enum8('b' = 1, 'a' = 2, 'c' = 3)",
					"Enum16('lo' = -32768, 'a' = 1, 'big' = 300, 'hi' = 32767)", "Enum16('p' = 1, 'q' = 300)", "Enum16('a' = 300, 'big' = 1)"}
			case strings.HasPrefix(cs.Type, "DateTime64("):
				alts = []string{"DateTime64(3)", "DateTime64(9)", "DateTime64(6)"}
			}
			if !ok || len(alts) == 0 {
				break
			}
			nt := alts[c.Draw("reinfer.to", len(alts))]
			nrt, err := refproto.ParseType(nt)
			if err != nil {
				panic(err)
			}
			inferFirst := c.Bool("reinfer.order", 1, 2) // proto.Results infers first and resets then
			if inferFirst {
				names = append(names, "infer("+nt+")+reset")
			} else {
				names = append(names, "reset+infer("+nt+")")
				col.Reset()
			}
			model = nil
			if err := inf.Infer(proto.ColumnType(nt)); err != nil {
				fail("infer-failed", "infer-other-definition", "Infer(%q) on a column that was %q: %v", nt, cs.Type, err)
				break
			}
			if inferFirst {
				col.Reset()
			}
			cs.Type, cs.RT = nt, nrt
			mutated = true
			r.Fire("reinfer")
			if c.Bool("reinfer.decode", 1, 2) {
				// ... and the block of that definition is decoded right away: the column
				// has been reset, whether before or after it learnt the type
				k := c.Range("reinfer.decode.rows", 1, 5)
				vals := gen.Values(vr, cs.RT, k)
				var w refproto.W
				if err := refproto.EncodeData(&w, cs.RT, vals); err != nil {
					panic(err)
				}
				names = append(names, fmt.Sprintf("decode(%d)", k))
				if err := col.DecodeColumn(proto.NewReader(&simio.FaultyReader{Data: w.B}), k); err != nil {
					fail("decode-failed", "decode-after-reinfer", "DecodeColumn of valid data after Reset and Infer(%q): %v", nt, err)
					break
				}
				got, err := gen.ReadAll(col, cs.RT, col.Rows())
				if err != nil {
					panic(err)
				}
				if col.Rows() != k || !reflect.DeepEqual(got, vals) {
					fail("decode-mismatch", "decode-after-reinfer", "after Reset and Infer(%q), decoding %d rows gives %d rows:\n got %.300s\nwant %.300s", nt, k, col.Rows(), fmtVals(got), fmtVals(vals))
					break
				}
				model = append([]any(nil), vals...)
				observed++
			}
		case "infer":
			names = append(names, "infer")
			if inf, ok := col.(proto.Inferable); ok {
				if err := inf.Infer(col.Type()); err != nil {
					fail("infer-failed", "infer-own-type", "Infer(%q) of the column's own type: %v", col.Type(), err)
				}
			}
		case "encode":
			names = append(names, "encode")
			if p, ok := col.(proto.Preparable); ok {
				if err := p.Prepare(); err != nil {
					fail("prepare-failed", "prepare-failed", "Prepare: %v", err)
					break
				}
			}
			var buf proto.Buffer
			if c.Bool("encode.dirtybuf", 1, 2) {
				buf.Buf = append(buf.Buf, c.Bytes("dirty", 7)...)
			}
			start := len(buf.Buf)
			if col.Rows() != len(model) {
				fail("rows", "rows", "Rows() = %d, the model holds %d", col.Rows(), len(model))
				break
			}
			if len(model) > 0 {
				if s, ok := col.(proto.StateEncoder); ok {
					s.EncodeState(&buf)
				}
			}
			col.EncodeColumn(&buf)
			checkBytes("EncodeColumn", buf.Buf[start:])
		case "write":
			names = append(names, "write")
			if p, ok := col.(proto.Preparable); ok {
				if err := p.Prepare(); err != nil {
					fail("prepare-failed", "prepare-failed", "Prepare: %v", err)
					break
				}
			}
			sink := &simio.FaultySink{FailAfter: -1}
			w := proto.NewWriter(sink, new(proto.Buffer))
			if len(model) > 0 {
				if s, ok := col.(proto.StateEncoder); ok {
					w.ChainBuffer(s.EncodeState)
				}
			}
			col.WriteColumn(w)
			if _, err := w.Flush(); err != nil {
				panic(err)
			}
			checkBytes("WriteColumn+Flush", sink.Got)
		case "rawblock":
			names = append(names, "rawblock")
			var buf proto.Buffer
			blk := proto.Block{Columns: 1, Rows: len(model)}
			if err := blk.EncodeRawBlock(&buf, rev, []proto.InputColumn{{Name: "c", Data: col}}); err != nil {
				fail("encode-mismatch", "rawblock-failed", "EncodeRawBlock with %d rows in the model: %v", len(model), err)
				break
			}
			b, err := refproto.DecodeRawBlock(&refproto.R{B: buf.Buf}, rev)
			if err != nil || len(b.Cols) != 1 {
				fail("encode-mismatch", "encode-undecodable", "EncodeRawBlock produced a block the reference cannot decode: %v", err)
				break
			}
			want := model
			if want == nil {
				want = []any{}
			}
			if !reflect.DeepEqual(b.Cols[0].Vals, want) {
				fail("encode-mismatch", "encode-values", "EncodeRawBlock encodes\n %.300s\nthe column logically holds\n %.300s", fmtVals(b.Cols[0].Vals), fmtVals(want))
				break
			}
			observed++
		case "blockdecode":
			// the library's own reuse path: a whole block (possibly a 0-row header
			// block) decoded through proto.Results into the column as it stands
			k := c.Range("block.rows", 0, 6)
			names = append(names, fmt.Sprintf("blockdecode(%d)", k))
			vals := gen.Values(vr, cs.RT, k)
			if vals == nil {
				vals = []any{}
			}
			var w refproto.W
			if err := refproto.EncodeBlock(&w, rev, &refproto.Block{Rows: k, Cols: []refproto.Column{{Name: "c", Type: cs.Type, Vals: vals}}}); err != nil {
				panic(err)
			}
			var blk proto.Block
			if err := blk.DecodeBlock(proto.NewReader(&simio.FaultyReader{Data: w.B}), rev, proto.Results{{Name: "c", Data: col}}); err != nil {
				fail("decode-failed", "blockdecode-failed", "DecodeBlock of a valid %d-row block into the reused column: %v", k, err)
				break
			}
			got, err := gen.ReadAll(col, cs.RT, col.Rows())
			if err != nil {
				panic(err)
			}
			if col.Rows() != k || !reflect.DeepEqual(got, vals) {
				fail("decode-mismatch", "blockdecode-carryover", "decoding a %d-row block into the reused column leaves %d rows:\n got %.300s\nwant %.300s", k, col.Rows(), fmtVals(got), fmtVals(vals))
				break
			}
			model = append([]any(nil), vals...)
			mutated = true
			observed++
		case "decode", "faildecode":
			k := c.Range("decode.rows", 1, 6)
			vals := gen.Values(vr, cs.RT, k)
			var w refproto.W
			refproto.EncodePrefix(&w, cs.RT)
			if err := refproto.EncodeData(&w, cs.RT, vals); err != nil {
				panic(err)
			}
			data := w.B
			if op == "faildecode" {
				names = append(names, fmt.Sprintf("faildecode(%d)", k))
				if len(data) == 0 {
					break
				}
				if c.Bool("fail.field", 1, 4) {
					// a count, offset, key or meta field of the valid encoding overwritten
					// (located by a traced parse of the independent codec), as in C06
					var fields []refproto.Field
					rr := &refproto.R{B: data, Trace: &fields}
					if refproto.DecodePrefix(rr, cs.RT) == nil {
						_, _ = refproto.DecodeData(rr, cs.RT, k)
					}
					data, _ = c06Damage(c, data, fields, data)
				} else if c.Bool("fail.cut", 2, 3) {
					data = data[:c.Draw("fail.at", len(data))]
				} else {
					data = append([]byte(nil), data...)
					at := c.Draw("fail.at", len(data))
					if c.Bool("fail.tail", 1, 3) {
						at = len(data) - 1 - c.Draw("fail.at.tail", min(len(data), 24)) // keys, last values: what is read last
					}
					data[at] |= byte(0x80 >> c.Draw("fail.bit", 8)) // setting a bit rather than flipping it: values out of range more often
					if c.Bool("fail.flip", 1, 2) {
						data[at] ^= byte(1 << c.Draw("fail.bit2", 8))
					}
				}
				col.Reset()
				rd := proto.NewReader(&simio.FaultyReader{Data: data})
				var derr error
				if s, ok := col.(proto.StateDecoder); ok {
					derr = s.DecodeState(rd)
				}
				if derr == nil {
					derr = col.DecodeColumn(rd, k)
				}
				if derr != nil {
					r.Fire("failed_decode")
				}
				// only Reset is assumed to restore a defined state
				col.Reset()
				model = nil
				mutated = true
				break
			}
			names = append(names, fmt.Sprintf("decode(%d)", k))
			col.Reset()
			rd := proto.NewReader(&simio.FaultyReader{Data: data})
			if s, ok := col.(proto.StateDecoder); ok {
				if err := s.DecodeState(rd); err != nil {
					fail("decode-failed", "decode-failed", "DecodeState of valid data after Reset: %v", err)
					break
				}
			}
			if err := col.DecodeColumn(rd, k); err != nil {
				fail("decode-failed", "decode-failed", "DecodeColumn of valid data after Reset: %v", err)
				break
			}
			got, err := gen.ReadAll(col, cs.RT, col.Rows())
			if err != nil {
				panic(err)
			}
			if col.Rows() != k || !reflect.DeepEqual(got, vals) {
				fail("decode-mismatch", "decode-after-reset", "after Reset, decoding %d rows gives %d rows:\n got %.300s\nwant %.300s", k, col.Rows(), fmtVals(got), fmtVals(vals))
				break
			}
			model = append([]any(nil), vals...)
			mutated = true
			observed++
		}
	}
}
