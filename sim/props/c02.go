package props

import (
	"context"
	"fmt"
	"reflect"
	"regexp"
	"strings"
	"testing"
	"time"

	"github.com/ClickHouse/ch-go"
	"github.com/ClickHouse/ch-go/proto"
	"go.opentelemetry.io/otel/trace"

	"chgosim/choice"
	"chgosim/gen"
	"chgosim/refproto"
	"chgosim/simnet"
)

var uuidRe = regexp.MustCompile(`^[0-9a-f]{8}-[0-9a-f]{4}-[0-9a-f]{4}-[0-9a-f]{4}-[0-9a-f]{12}$`)

func drawText(c *choice.Stream, label string) string {
	switch c.Weighted(label, 2, 4, 1, 1, 1) {
	case 0:
		return ""
	case 1:
		return fmt.Sprintf("%s-%d", label, c.Draw(label+".n", 100000))
	case 2:
		return strings.Repeat("x", c.Pick(label+".len", 127, 128, 129, 16383, 16384, 70000))
	case 3:
		return string(c.Bytes(label+".bin", 1+c.Draw(label+".binlen", 40)))
	default:
		return "ключ \x00 'quoted' \"double\" \\ \n"
	}
}

func drawSettings(c *choice.Stream, label string) []ch.Setting {
	n := c.Weighted(label+".n", 3, 2, 1, 1)
	var out []ch.Setting
	for i := 0; i < n; i++ {
		out = append(out, ch.Setting{Key: fmt.Sprintf("%s_key_%d", label, i), Value: drawText(c, label+".val"), Important: c.Bool(label+".imp", 1, 2)})
	}
	return out
}

type c02Query struct {
	sc       *queryScenario
	q        ch.Query
	ctx      context.Context
	span     trace.SpanContext
	ext      []ColSpec
	extVals  [][]any
	extTable string
	refuse   bool // parameters on a revision that predates them
}

func init() {
	Register(&Prop{
		ID: "C02", Engine: "A", Quick: 6000, Thorough: 300000, Level: "exploration",
		Rule: "each run = handshake + 1..3 queries with drawn fields (id empty or given, body empty/long/non-UTF-8, connection- and query-level settings with flags, parameters, secret, quota key, initial user, span context, external data with/without a table name, input columns of drawn types with 0..4 callback rounds) against a fault-free reference server, at a drawn revision pair and compression mode, under a seeded goroutine and delivery schedule; oracle = the whole client byte stream parsed by the independent codec must be exactly the expected packet sequence with the expected field values and block contents, with zero trailing bytes; distinct = schedule digests; non-trivial = at least one query with settings, parameters, external data or input blocks",
		Run:  runC02,
	})
}

func runC02(t *testing.T, c *choice.Stream, r *Result, opt RunOpt) {
	playOldRev = true
	defer func() { playOldRev = false }()
	Bubble(t, c, r, opt, func(e *Env) func() {
		cf := DrawConf(c)
		cf.Settings = drawSettings(c, "conn")
		cf.QuotaKey = drawText(c, "quota")
		cf.User = []string{"", "alice", "ключ"}[c.Draw("user", 3)]
		cf.Pass = drawText(c, "pass")
		cf.Database = []string{"", "db1"}[c.Draw("db", 2)]
		cf.ClientName = []string{"", "sim/1.0"}[c.Draw("cname", 2)]
		nq := c.Range("queries", 1, 3)
		slowPing := []bool{c.Bool("slowping.0", 1, 10), c.Bool("slowping.1", 1, 10), c.Bool("slowping.2", 1, 10)}
		deadPing := []bool{c.Bool("deadping.0", 1, 8), c.Bool("deadping.1", 1, 8), c.Bool("deadping.2", 1, 8)}
		var qs []*c02Query
		script := cf.HandshakeSteps()
		nop := func(*refproto.ClientPacket) []byte { return nil }
		for i := 0; i < nq; i++ {
			// base: select or insert with its own script (handshake part stripped)
			sc := drawQueryScenario(c, cf)
			cq := &c02Query{sc: sc, q: sc.query, ctx: context.Background()}
			if !c.Bool("id.empty", 1, 2) {
				cq.q.QueryID = drawText(c, "qid")
			}
			cq.q.Body = drawText(c, "body")
			cq.q.Settings = drawSettings(c, "q")
			cq.q.Secret = drawText(c, "secret")
			cq.q.QuotaKey = drawText(c, "qquota")
			cq.q.InitialUser = []string{"", "bob"}[c.Draw("iuser", 2)]
			if c.Bool("params", 1, 3) {
				n := c.Range("params.n", 1, 3)
				for j := 0; j < n; j++ {
					cq.q.Parameters = append(cq.q.Parameters, proto.Parameter{Key: fmt.Sprintf("p%d", j), Value: drawText(c, "param.val")})
				}
				if cf.Negotiated() < refproto.RevParameters {
					cq.refuse = true
				}
			}
			if c.Bool("span", 1, 3) {
				var tid trace.TraceID
				var sid trace.SpanID
				copy(tid[:], c.Bytes("span.tid", 16))
				copy(sid[:], c.Bytes("span.sid", 8))
				tid[0] |= 1
				sid[0] |= 1
				cq.span = trace.NewSpanContext(trace.SpanContextConfig{TraceID: tid, SpanID: sid, TraceFlags: trace.TraceFlags(c.Pick("span.flags", 0, 1, 1, 2, 3, 0x80, 0xff))})
				cq.ctx = trace.ContextWithSpanContext(context.Background(), cq.span)
			}
			if c.Bool("ext", 1, 3) {
				cq.ext = DrawCols(c, "ext", 2, 1)
				rows := c.Range("ext.rows", 0, 4)
				cq.extVals = drawRoundVals(c, cq.ext, rows)
				for j, cs := range cq.ext {
					col, err := gen.NewCol(cs.Type)
					if err != nil {
						panic(err)
					}
					if err := gen.Fill(col, cs.RT, cq.extVals[j]); err != nil {
						panic(err)
					}
					cq.q.ExternalData = append(cq.q.ExternalData, proto.InputColumn{Name: "e" + cs.Name, Data: col})
				}
				if c.Bool("ext.table", 1, 2) {
					cq.extTable = "ext_tbl"
					cq.q.ExternalTable = cq.extTable
				}
			}
			qs = append(qs, cq)
			if cq.refuse {
				continue // nothing is written, the server sees nothing
			}
			qscript := sc.script[sc.afterHandshake:]
			if len(cq.ext) > 0 {
				// one more client packet (the external block) before the terminator
				qscript = append([]simnet.Step{qscript[0], {Label: "ext", OnPacket: nop}}, qscript[1:]...)
			}
			script = append(script, qscript...)
		}
		e.Sim.DrawStrategy()
		e.Sim.StallProb = 0
		e.Sim.MaxSteps = 400000
		e.W.DeliverMode = c.Weighted("deliver", 3, 1, 3)
		srv := simnet.NewServer(cf.ServerRev, script)
		conn := e.W.NewConn(srv)
		HangJudge(e, r, conn, srv, cf.ServerRev)
		conn.Window = c.Pick("window", 0, 0, 64, 4096)
		if conn.Window > 0 && c.Bool("peer.pause", 1, 3) {
			// a server too busy to read for a while, longer than the client's read
			// timeout: the sender sits in Write meanwhile, and nothing is wrong
			conn.PauseReadAt = c.Range("peer.pause.at", 150, 3000)
			conn.PauseFor = []time.Duration{cf.EffReadTimeout() / 2, cf.EffReadTimeout() * 3 / 2, cf.EffReadTimeout() * 4}[c.Draw("peer.pause.for", 3)]
		}
		r.Cell = fmt.Sprintf("rev%d/comp%d/%s", cf.Negotiated(), cf.Comp, qs[0].sc.kind)
		var shapes []map[string]any
		for _, cq := range qs {
			shapes = append(shapes, map[string]any{"kind": cq.sc.kind, "cols": colNames(cq.sc.cols), "settings": len(cq.q.Settings), "params": len(cq.q.Parameters), "ext": colNames(cq.ext), "id_len": len(cq.q.QueryID), "body_len": len(cq.q.Body), "span": cq.span.IsValid(), "refuse": cq.refuse})
		}
		r.Sample = map[string]any{"client_rev": cf.ClientRev, "server_rev": cf.ServerRev, "compression": cf.Comp.String(), "level": cf.Level, "conn_settings": len(cf.Settings), "queries": shapes}
		// Another client of the same application: its Options.Settings is a prefix
		// of ours in the same backing array, with spare capacity (ours was built by
		// appending to the common ones). What it sends must not touch what we send.
		opts := cf.Options()
		var sibConn *simnet.Conn
		var sibOpts ch.Options
		var sibSettings []ch.Setting
		if len(cf.Settings) > 0 && c.Bool("sibling", 1, 5) {
			backing := make([]ch.Setting, len(cf.Settings), len(cf.Settings)+4)
			copy(backing, cf.Settings) // cf.Settings itself stays private to the oracle
			opts.Settings = backing
			sibOpts = cf.Options()
			sibOpts.Settings = backing[:c.Draw("sibling.prefix", len(cf.Settings))]
			for len(sibSettings) == 0 {
				sibSettings = drawSettings(c, "sibling.q")
			}
			sibSrv := simnet.NewServer(cf.ServerRev, cf.HandshakeSteps())
			sibSrv.Auto = autoResponder(cf)
			sibConn = e.W.NewConn(sibSrv)
		}
		return func() {
			cl, err := ch.Connect(context.Background(), conn, opts)
			if err != nil {
				r.Violate("handshake", "handshake", "fault-free handshake failed: %v (server parse error: %v)", err, srv.Parser.Err)
				return
			}
			if sibConn != nil {
				sib, err := ch.Connect(context.Background(), sibConn, sibOpts)
				if err != nil {
					r.Harness("sibling handshake failed: %v", err)
					return
				}
				var v proto.ColUInt8
				if err := sib.Do(context.Background(), ch.Query{Body: "SELECT 7", Result: proto.Results{{Name: "probe", Data: &v}}, Settings: sibSettings}); err != nil {
					r.Harness("sibling query failed: %v", err)
					return
				}
				r.Fire("sibling_client_with_shared_settings_array")
			}
			for i, cq := range qs {
				if deadPing[i%len(deadPing)] {
					// a health probe under a context that is already over: it may write
					// nothing, and must not leave anything behind for the query that follows
					dctx, cancel := context.WithCancel(context.Background())
					cancel()
					mark := conn.OutLen()
					if err := cl.Ping(dctx); err == nil {
						r.Violate("dead-ping", "dead-ping-ok", "Ping under a cancelled context returned nil")
					}
					if n := conn.OutLen() - mark; n != 0 {
						r.Violate("dead-ping", "dead-ping-wrote", "Ping under a cancelled context wrote %d bytes", n)
					}
					r.Fire("ping_with_dead_context")
					if cl.IsClosed() {
						r.Probe("closed_by_dead_ping")
						break
					}
				}
				if slowPing[i%len(slowPing)] {
					// ... or a probe that gives up because nothing can be written for a
					// while (the peer is not reading): a transient failure, the
					// connection is fine again by the time the query comes
					conn.WriteBlockedUntil = e.Sim.Now() + 400*time.Millisecond
					pctx, cancel := context.WithTimeout(context.Background(), 50*time.Millisecond)
					mark := conn.OutLen()
					perr := cl.Ping(pctx)
					cancel()
					if perr == nil {
						r.Violate("dead-ping", "slow-ping-ok", "Ping returned nil although nothing could be written before its deadline")
					}
					if n := conn.OutLen() - mark; n != 0 {
						r.Harness("blocked write put %d bytes on the wire", n)
						return
					}
					time.Sleep(500 * time.Millisecond)
					e.Sim.Yield("user.sleep")
					r.Fire("ping_times_out_on_a_blocked_write")
					if cl.IsClosed() {
						r.Probe("closed_by_timed_out_ping")
						break
					}
				}
				before := conn.OutLen()
				derr := cl.Do(cq.ctx, cq.q)
				if cq.refuse {
					if derr == nil {
						r.Violate("params-unsupported", "params-accepted", "query %d has parameters at revision %d but Do returned nil", i, cf.Negotiated())
					}
					if conn.OutLen() != before {
						r.Violate("params-unsupported", "params-written", "query %d with unsupported parameters wrote %d bytes", i, conn.OutLen()-before)
					}
					continue
				}
				if derr != nil {
					r.Violate("fault-free-failure", "do-failed", "query %d failed without any fault: %v (server parse error: %v)", i, derr, srv.Parser.Err)
					return
				}
				if len(cq.q.Settings)+len(cq.q.Parameters)+len(cq.ext) > 0 || cq.sc.kind == "insert" {
					r.NonTriv = true
				}
			}
			checkClientStream(r, cf, conn, qs)
		}
	})
}

type pktCursor struct {
	p []*refproto.ClientPacket
	i int
}

func (pc *pktCursor) next() *refproto.ClientPacket {
	if pc.i >= len(pc.p) {
		return nil
	}
	x := pc.p[pc.i]
	pc.i++
	return x
}

func sameSettings(got []refproto.Setting, want []ch.Setting) string {
	if len(got) != len(want) {
		return fmt.Sprintf("%d settings, want %d", len(got), len(want))
	}
	for i := range got {
		fl := uint64(0)
		if want[i].Important {
			fl = 1
		}
		if got[i].Key != want[i].Key || got[i].Value != want[i].Value || got[i].Flags != fl {
			return fmt.Sprintf("setting %d is %q=%q flags %d, want %q=%q flags %d", i, got[i].Key, got[i].Value, got[i].Flags, want[i].Key, want[i].Value, fl)
		}
	}
	return ""
}

// checkClientStream parses everything the client wrote with the independent
// codec and compares it with the scenario: exactly these packets, these
// fields, these blocks, nothing else.
func checkClientStream(r *Result, cf *Conf, conn *simnet.Conn, qs []*c02Query) {
	out := conn.OutCopy()
	rev := cf.Negotiated()
	p := refproto.ClientParser{ServerRev: cf.ServerRev}
	var pk []*refproto.ClientPacket
	for {
		x, err := p.Next(out)
		if err != nil {
			r.Violate("malformed-stream", "malformed", "client stream does not parse at revision %d: %v", rev, err)
			return
		}
		if x == nil {
			break
		}
		pk = append(pk, x)
	}
	if p.Pos != len(out) {
		r.Violate("trailing-bytes", "trailing", "%d trailing bytes after the last whole packet", len(out)-p.Pos)
		return
	}
	pc := &pktCursor{p: pk}
	bad := func(key, f string, a ...any) { r.Violate("packet-sequence", key, f, a...) }
	h := pc.next()
	if h == nil || h.Kind != refproto.PHello {
		bad("no-hello", "first packet is not Hello")
		return
	}
	wantDB, wantUser := cf.Database, cf.User
	if wantDB == "" {
		wantDB = "default"
	}
	if wantUser == "" {
		wantUser = "default"
	}
	if int(h.Revision) != cf.ClientRev || h.Database != wantDB || h.User != wantUser || h.Password != cf.Pass {
		bad("hello-fields", "hello carries rev=%d db=%q user=%q pass=%q, want %d %q %q %q", h.Revision, h.Database, h.User, h.Password, cf.ClientRev, wantDB, wantUser, cf.Pass)
		return
	}
	if rev >= refproto.RevQuotaKeyAddendum {
		a := pc.next()
		if a == nil || a.Kind != refproto.PAddendum || a.QuotaKey != cf.QuotaKey {
			bad("addendum", "addendum missing or wrong at revision %d: %+v", rev, a)
			return
		}
	}
	wantMeth := cf.Method()
	checkData := func(d *refproto.ClientPacket, what, table string, cols []ColSpec, prefix string, vals [][]any, blank bool) bool {
		if d == nil || d.Kind != refproto.PData {
			bad("missing-"+what, "expected a Data packet (%s), got %v", what, kindOf(d))
			return false
		}
		if d.Table != table {
			bad("table-name", "%s block has table name %q, want %q", what, d.Table, table)
			return false
		}
		if d.Compressed != (wantMeth != 0) {
			bad("compression-flag", "%s block compressed=%v with compression %s", what, d.Compressed, cf.Comp)
			return false
		}
		if d.Compressed && (d.Frames != 1 || d.FrameMeth != wantMeth) {
			bad("frame", "%s block uses %d frames of method %#x, want 1 of %#x", what, d.Frames, d.FrameMeth, wantMeth)
			return false
		}
		b := d.Block
		if blank {
			if len(b.Cols) != 0 || b.Rows != 0 {
				bad("terminator", "%s should be an empty block, has %d columns %d rows", what, len(b.Cols), b.Rows)
				return false
			}
			return true
		}
		if len(b.Cols) != len(cols) {
			bad("block-columns", "%s block has %d columns, want %d", what, len(b.Cols), len(cols))
			return false
		}
		for i, cs := range cols {
			if b.Cols[i].Name != prefix+cs.Name || normType(b.Cols[i].Type) != normType(cs.Type) {
				bad("block-schema", "%s block column %d is %q %q, want %q %q", what, i, b.Cols[i].Name, b.Cols[i].Type, prefix+cs.Name, cs.Type)
				return false
			}
			want := vals[i]
			if want == nil {
				want = []any{}
			}
			if !reflect.DeepEqual(b.Cols[i].Vals, want) {
				bad("block-values:"+cs.RT.Name, "%s block column %d (%s) decodes to\n %.400s\nwant\n %.400s", what, i, cs.Type, fmtVals(b.Cols[i].Vals), fmtVals(want))
				return false
			}
		}
		return true
	}
	for qi, cq := range qs {
		if cq.refuse {
			continue
		}
		q := pc.next()
		if q == nil || q.Kind != refproto.PQuery {
			bad("missing-query", "query %d: expected a Query packet, got %v", qi, kindOf(q))
			return
		}
		if cq.q.QueryID != "" {
			if q.QueryID != cq.q.QueryID {
				bad("query-id", "query id %q, want %q", q.QueryID, cq.q.QueryID)
				return
			}
		} else if !uuidRe.MatchString(q.QueryID) {
			bad("query-id-generated", "generated query id %q is not a UUID", q.QueryID)
			return
		}
		if q.Body != cq.q.Body {
			bad("body", "query body differs (%d bytes, want %d)", len(q.Body), len(cq.q.Body))
			return
		}
		wantSettings := append(append([]ch.Setting{}, cf.Settings...), cq.q.Settings...)
		if cf.Negotiated() < refproto.RevSettingsAsStrings {
			wantSettings = nil // the revision has no place for them
		}
		if s := sameSettings(q.Settings, wantSettings); s != "" {
			bad("settings", "%s", s)
			return
		}
		if rev >= refproto.RevParameters {
			if len(q.Params) != len(cq.q.Parameters) {
				bad("params", "%d parameters, want %d", len(q.Params), len(cq.q.Parameters))
				return
			}
			for i, pp := range q.Params {
				if pp.Key != cq.q.Parameters[i].Key || pp.Value != cq.q.Parameters[i].Value || pp.Flags != 2 {
					bad("params", "parameter %d is %q=%q flags %d", i, pp.Key, pp.Value, pp.Flags)
					return
				}
			}
		}
		if rev >= refproto.RevInterServerSecret && q.Secret != cq.q.Secret {
			bad("secret", "secret %q, want %q", q.Secret, cq.q.Secret)
			return
		}
		if q.Stage != 2 {
			bad("stage", "stage %d, want 2 (Complete)", q.Stage)
			return
		}
		if (q.Compression == 1) != (wantMeth != 0) {
			bad("query-compression", "compression flag %d with %s", q.Compression, cf.Comp)
			return
		}
		if rev >= refproto.RevClientWriteInfo {
			ci := q.Info
			if ci == nil || ci.QueryKind != 1 {
				bad("client-info", "client info missing or not an initial query: %+v", ci)
				return
			}
			if ci.InitialQueryID != q.QueryID || ci.InitialUser != cq.q.InitialUser || ci.InitialAddress != conn.LocalAddr().String() {
				bad("client-info-initial", "initial fields %q %q %q", ci.InitialUser, ci.InitialQueryID, ci.InitialAddress)
				return
			}
			if int(ci.Revision) != rev {
				bad("client-info-revision", "client info revision %d, negotiated %d", ci.Revision, rev)
				return
			}
			if cf.ClientName != "" && !strings.HasSuffix(ci.ClientName, cf.ClientName) {
				bad("client-info-name", "client name %q does not end with %q", ci.ClientName, cf.ClientName)
				return
			}
			if rev >= refproto.RevQuotaKeyInClientInfo && ci.QuotaKey != cq.q.QuotaKey {
				bad("client-info-quota", "quota key %q, want %q", ci.QuotaKey, cq.q.QuotaKey)
				return
			}
			if rev >= refproto.RevOpenTelemetry {
				if ci.HasTrace != cq.span.IsValid() {
					bad("client-info-trace", "trace context present=%v, caller has one=%v", ci.HasTrace, cq.span.IsValid())
					return
				}
				if ci.HasTrace {
					tid, sid := cq.span.TraceID(), cq.span.SpanID()
					if ci.TraceID != [16]byte(tid) || ci.SpanID != [8]byte(sid) || ci.TraceFlags != byte(cq.span.TraceFlags()) {
						bad("client-info-trace", "trace context %x/%x/%d, want %x/%x/%d", ci.TraceID, ci.SpanID, ci.TraceFlags, tid, sid, cq.span.TraceFlags())
						return
					}
				}
			}
		}
		if len(cq.ext) > 0 {
			tbl := cq.extTable
			if tbl == "" {
				tbl = "_data"
			}
			if !checkData(pc.next(), "external", tbl, cq.ext, "e", cq.extVals, false) {
				return
			}
		}
		if !checkData(pc.next(), "external-terminator", "", nil, "", nil, true) {
			return
		}
		if cq.sc.kind == "insert" {
			plan := cq.sc.plan
			for bi, bv := range plan.ExpectedBlocks() {
				if !checkData(pc.next(), fmt.Sprintf("input%d", bi), "", plan.Cols, "", bv, false) {
					return
				}
			}
			if !checkData(pc.next(), "input-terminator", "", nil, "", nil, true) {
				return
			}
		}
	}
	if x := pc.next(); x != nil {
		bad("extra-packet", "unexpected extra %v packet at offset %d", x.Kind, x.Off)
	}
}

func kindOf(p *refproto.ClientPacket) string {
	if p == nil {
		return "end of stream"
	}
	return p.Kind.String()
}

// normType removes the optional blanks after commas in a type name.
func normType(t string) string { return strings.ReplaceAll(t, ", ", ",") }
