package props

import (
	"chgosim/refproto"
	"context"
	"fmt"
	"github.com/ClickHouse/ch-go/proto"
	"regexp"
	"sort"
	"strings"
	"testing"
	"time"

	"github.com/ClickHouse/ch-go"

	"chgosim/choice"
	"chgosim/sched"
	"chgosim/simnet"
)

// otelOverride makes every Conf drawn during a C12 run enable the library's
// OpenTelemetry instrumentation (with the global no-op providers).
var otelOverride bool

func init() {
	Register(&Prop{
		ID: "C12", Engine: "A", Quick: 10000, Thorough: 150000, Level: "exploration", AltEvery: 4,
		Rule:     "race build of the simulator (go test -race; the scheduler's own hand-offs are hidden from the detector with runtime.RaceDisable so that they add no happens-before edges): each run plays one scenario of the C03 (responses with telemetry), C04 (faults), C09 (streamed insert with progress), C10 (cancellation) or C11 (pool users and health checker) families, or a query with Client.Close called from a foreign goroutine at a drawn decision, with OpenTelemetry instrumentation on or off, under a seeded schedule; a violation is a race report whose two accesses both have their innermost frame in the library; distinct = schedule digests; non-trivial = at least one context switch",
		Run:      runC12,
		OnStderr: racesFromStderr,
	})
}

func runC12(t *testing.T, c *choice.Stream, r *Result, opt RunOpt) {
	otelOverride = c.Bool("otel", 2, 3)
	otelSDK = otelOverride && c.Bool("otel.sdk", 1, 2)
	defer func() { otelOverride, otelSDK = false, false }()
	fam := c.Weighted("family", 5, 2)
	name := []string{"query", "pool"}[fam]
	sub := &Result{Prop: r.Prop, Index: r.Index, Seed: r.Seed}
	switch fam {
	case 0:
		runRaceQuery(t, c, sub, opt)
	default:
		runPool(t, c, sub, opt, true)
	}
	r.Steps, r.Switches, r.SimMs, r.Digest, r.Sites, r.Pairs = sub.Steps, sub.Switches, sub.SimMs, sub.Digest, sub.Sites, sub.Pairs
	r.Fired, r.Trace = sub.Fired, sub.Trace
	r.Cell = fmt.Sprintf("%s/otel=%v", name, otelOverride)
	if s, ok := sub.Sample.(map[string]any); ok && fam == 0 {
		r.Cell = fmt.Sprintf("%s/%v/otel=%v", s["kind"], s["fault"], otelOverride)
	}
	r.NonTriv = sub.Switches > 0
	r.Sample = map[string]any{"family": name, "otel": otelOverride, "scenario": sub.Sample}
	if sub.Outcome == "harness" {
		r.Outcome, r.Detail = "harness", sub.Detail
	}
	if sub.Outcome == "violation" {
		r.Probe("workload_oracle:" + sub.Clause)
	}
	if otelOverride {
		r.Fire("otel_on")
	}
	if otelSDK {
		r.Fire("otel_sdk_provider")
	}
}

// runRaceQuery plays one query (select with telemetry callbacks, or insert,
// streamed or not, with progress) under one drawn disturbance, with nothing
// shared between the scheduler and the workload but the library itself.
func runRaceQuery(t *testing.T, c *choice.Stream, r *Result, opt RunOpt) {
	Bubble(t, c, r, opt, func(e *Env) func() {
		cf := DrawConf(c)
		if cf.ReadTimeout < 0 {
			cf.ReadTimeout = 0 // the disturbances here are placed by decision count, which needs the client's timers to keep decisions coming
		}
		cf.DebugLog = cf.DebugLog || c.Bool("debuglog.more", 1, 3) // the debug branches take pooled entries from the logger
		sc := drawQueryScenario(c, cf)
		if c.Bool("ext", 1, 3) {
			// external data, with the table name given or left to the default: one
			// more block, and one more field of the query, for the sender to handle
			// while the receiver is already at work
			var col proto.ColUInt64
			for i := 0; i < c.Range("ext.rows", 0, 3); i++ {
				col.Append(uint64(i))
			}
			sc.query.ExternalData = []proto.InputColumn{{Name: "e", Data: &col}}
			if c.Bool("ext.table", 1, 2) {
				sc.query.ExternalTable = "ext_tbl"
			}
			ns := append([]simnet.Step{}, sc.script[:sc.afterHandshake+1]...)
			ns = append(ns, simnet.Step{Label: "ext-data", OnPacket: func(*refproto.ClientPacket) []byte { return nil }})
			sc.script = append(ns, sc.script[sc.afterHandshake+1:]...)
		}
		e.Sim.DrawStrategy()
		e.Sim.StallProb = 0
		e.W.DeliverMode = c.Weighted("deliver", 4, 1, 3)
		fault := []string{"none", "exception", "bad_code", "cut", "callback_err", "deadline", "cancel", "foreign_close"}[c.Weighted("fault", 4, 3, 1, 2, 2, 2, 3, 4)]
		script := sc.script
		qStart := sc.afterHandshake
		switch fault {
		case "exception", "bad_code":
			p := qStart + 1 + c.Draw("fault.pos", len(script)-qStart-1)
			inj := simnet.Step{Label: "exception", Send: (&SPacket{Kind: "exception", Exc: DrawExceptionChain(c)}).Encode(cf)}
			if fault == "bad_code" {
				inj = simnet.Step{Label: "bad_code", Send: []byte{99}}
			}
			script = append(append([]simnet.Step{}, script[:p]...), inj)
		case "callback_err":
			names := []string{"result", "progress", "profile", "events", "logs"}
			if sc.kind == "insert" {
				names = []string{"input"}
			}
			sc.rec.FailAt = map[string]int{names[c.Draw("cb.name", len(names))]: 1 + c.Draw("cb.j", 3)}
		}
		// a cancellation, deadline or foreign Close may meet a server exception that
		// is just being read: the disturbance then comes a few decisions after the
		// exception went out
		excIdx, excDelta := -1, 0
		if (fault == "cancel" || fault == "foreign_close" || fault == "deadline") && c.Bool("with.exception", 1, 3) {
			p := qStart + 1 + c.Draw("with.exception.pos", len(script)-qStart-1)
			script = append(append([]simnet.Step{}, script[:p]...), simnet.Step{Label: "exception", Send: (&SPacket{Kind: "exception", Exc: DrawExceptionChain(c)}).Encode(cf)})
			excIdx, excDelta = p, c.Draw("with.exception.delta", 40)
		}
		srv := simnet.NewServer(cf.ServerRev, script)
		conn := e.W.NewConn(srv)
		if c.Bool("backpressure", 1, 3) {
			// the sender sits inside Write while the receiver handles packets, and
			// goes on from there (to its logger, to its buffers) when the write ends
			conn.Window = c.Pick("window", 16, 64, 512)
		}
		var conn2 *simnet.Conn
		if fault == "foreign_close" && c.Bool("redial", 1, 2) {
			srv2 := simnet.NewServer(cf.ServerRev, cf.HandshakeSteps())
			srv2.Auto = autoResponder(cf)
			conn2 = e.W.NewConn(srv2)
		}
		cutK := c.Draw("cut.k", 300)
		dl := time.Duration(c.Pick("deadline.ms", 0, 1, 50, 900)) * time.Millisecond
		at := c.Draw("at.step", 700)
		trigger := make(chan struct{})
		var cancel context.CancelFunc
		ctx := context.Background()
		if fault == "cancel" {
			ctx, cancel = context.WithCancel(ctx)
		}
		if fault == "cancel" || fault == "foreign_close" {
			done := false
			excSent := false
			e.Sim.AddEnv(&sched.EnvFunc{N: fault, E: func() bool {
				if excIdx >= 0 && !excSent && !done {
					if srv.ScriptPos() > excIdx {
						excSent = true
						at = e.Sim.Step + excDelta
					} else if e.Sim.Step < 3000 {
						return false
					}
				}
				return !done && e.Sim.Step >= at
			}, R: func() {
				done = true
				if fault == "cancel" {
					cancel()
				} else {
					close(trigger)
				}
			}})
		}
		r.Sample = map[string]any{"kind": sc.kind, "fault": fault, "compression": cf.Comp.String(), "at_step": at, "cols": colNames(sc.cols)}
		return func() {
			qctx := ctx
			cl, err := ch.Connect(qctx, conn, cf.Options())
			if err != nil {
				return
			}
			switch fault {
			case "cut":
				conn.CutAfter = conn.Enq() + cutK
			case "deadline":
				var cf context.CancelFunc
				qctx, cf = context.WithTimeout(qctx, dl)
				defer cf()
			}
			var closerDone chan struct{}
			if fault == "foreign_close" {
				closerDone = make(chan struct{})
				e.Sim.Go("closer", func() {
					defer close(closerDone)
					<-trigger
					e.Sim.Yield("closer.wake")
					_ = cl.Close()
					// ... and the application dials again at once, while the closed
					// client's Do may still be unwinding: whatever the two share inside
					// the library (pools, caches) is touched from both sides
					if conn2 != nil {
						if cl2, err := ch.Connect(context.Background(), conn2, cf.Options()); err == nil {
							_ = cl2.Ping(context.Background())
							_ = cl2.Close()
						}
					}
				})
			}
			derr := cl.Do(qctx, sc.query)
			if derr != nil {
				r.Fire(fault)
			}
			if !cl.IsClosed() {
				_ = cl.Ping(qctx)
			}
			if closerDone != nil {
				e.Sim.SetFair()
				e.Sim.MaxSteps += 1000
				// the closer is released by the environment action at the latest when nothing else can move
				at = 0
				<-closerDone
			}
		}
	})
}

var raceHdr = regexp.MustCompile(`(?m)^(Write|Read|Previous write|Previous read|Atomic write|Previous atomic write|Atomic read|Previous atomic read) at 0x[0-9a-f]+ by (main )?goroutine`)

type raceReport struct {
	idx  int
	key  string
	lib  bool
	text string
}

// parseRaces splits the stderr of a race-built worker into reports and
// attributes each to the run index announced before it ("S <idx>" lines).
func parseRaces(stderr string) []raceReport {
	var out []raceReport
	idx := -1
	lines := strings.Split(stderr, "\n")
	for i := 0; i < len(lines); i++ {
		l := lines[i]
		if strings.HasPrefix(l, "S ") {
			fmt.Sscanf(l, "S %d", &idx)
			continue
		}
		if l != "WARNING: DATA RACE" {
			continue
		}
		j := i
		for j < len(lines) && lines[j] != "==================" {
			j++
		}
		text := strings.Join(lines[i:j], "\n")
		// innermost frame of each access = first function line after each access header
		var tops []string
		blk := lines[i:j]
		for k := 0; k < len(blk); k++ {
			if raceHdr.MatchString(blk[k]) {
				// innermost frame that is not the runtime's (append/copy report through runtime.slicecopy, growslice, ...)
				for j := k + 1; j+1 < len(blk) && strings.TrimSpace(blk[j]) != ""; j += 2 {
					f := strings.TrimSpace(blk[j])
					if p := strings.LastIndexByte(f, '('); p > 0 {
						f = f[:p]
					}
					// the innermost frame that belongs to the library or to the harness: an
					// access inside the runtime (append/copy report through slicecopy,
					// growslice) or inside a standard-library or third-party type (bufio,
					// sync.Pool, zap...) is the doing of whoever called it
					if !strings.HasPrefix(f, "github.com/ClickHouse/ch-go") && !strings.HasPrefix(f, "chgosim/") {
						continue
					}
					tops = append(tops, f)
					break
				}
			}
		}
		lib := len(tops) == 2
		for _, f := range tops {
			if !strings.HasPrefix(f, "github.com/ClickHouse/ch-go") || strings.Contains(f, "/simrt.") {
				lib = false
			}
		}
		sort.Strings(tops)
		for k := range tops {
			tops[k] = strings.TrimPrefix(tops[k], "github.com/ClickHouse/ch-go")
		}
		out = append(out, raceReport{idx: idx, key: strings.Join(tops, " | "), lib: lib, text: text})
		i = j
	}
	return out
}

// racesFromStderr turns library race reports into violations of the runs
// during which they were printed.
func racesFromStderr(stderr string, results []*Result, agg func(string)) {
	for _, rr := range parseRaces(stderr) {
		if !rr.lib {
			agg("race_report_outside_library")
			continue
		}
		for _, r := range results {
			if r.Index == rr.idx && r.Outcome != "violation" {
				r.Outcome = "violation"
				r.Clause = "data-race"
				r.Key = "race:" + rr.key
				r.Detail = rr.text
			}
		}
	}
}
