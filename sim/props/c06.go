package props

import (
	"encoding/binary"
	"fmt"
	"hash/fnv"
	"regexp"
	"runtime"
	"runtime/debug"
	"strings"
	"testing"
	"time"

	"github.com/ClickHouse/ch-go/proto"

	"chgosim/choice"
	"chgosim/gen"
	"chgosim/refproto"
	"chgosim/simio"
)

func init() {
	Register(&Prop{
		ID: "C06", Engine: "B", AltEvery: 4, Quick: 100000, Thorough: 5000000, Level: "exploration",
		Rule:     "each case = a valid encoding (a block of drawn columns for typed or inferred targets, a single column, or a protocol message incl. the server-side decoders Query/ClientInfo/ClientHello) damaged in transit by one to three drawn faults: a count/length/offset/key/meta/flag field located by a traced parse of the independent codec overwritten with 0, 1, 127/128, 2^16+-1, 2^31, 2^63-1, 2^64-1 or the value +-1; bit flips; a segment duplicated, dropped or swapped; two encodings glued together; decoded in a worker process that runs under an address-space limit (ulimit -v) with the library's row cap lowered in the scratch copy; oracle = no panic (recovered and attributed to the innermost library frame), no process death (attributed by the parent to the case in progress), bounded allocation, and on success every column reports the block's row count and every row accessor works for every index; distinct = distinct damaged streams; non-trivial = the damaged stream differs from the valid one",
		Run:      runC06,
		SlowCase: 60 * time.Second, // a 16 MB type string takes the library seconds to refuse
		OnDeath: func(r *Result) {
			if r.Outcome != "died" {
				return
			}
			msg, frame := "?", "?"
			lines := strings.Split(r.Detail, "\n")
			for i, l := range lines {
				if strings.HasPrefix(l, "panic: ") || strings.HasPrefix(l, "fatal error: ") || strings.HasPrefix(l, "runtime: out of memory") {
					msg = l
					frame = firstLibFrame(strings.Join(lines[i:], "\n"))
					break
				}
			}
			if strings.Contains(msg, "stack overflow") {
				frame = "" // where the limit is hit is arbitrary; the recursion is what matters
			}
			r.Outcome = "violation"
			r.Clause = "process-died"
			// sizes and usage figures in the runtime's message vary from process to process
			msg = regexp.MustCompile(`[0-9]+`).ReplaceAllString(msg, "N")
			if i := strings.Index(msg, "out of memory"); i >= 0 {
				msg = msg[:i+len("out of memory")]
				frame = ""
			}
			r.Key = "died:" + msg + ":" + frame
		},
	})
}

var c06Specials = []uint64{0, 1, 2, 127, 128, 255, 256, 65535, 65536, 65537, 1 << 31, 1<<31 - 1, 1<<32 - 1, 1 << 32, 1<<63 - 1, 1 << 63, 1<<64 - 1}

type c06Case struct {
	valid  []byte
	decode func(data []byte) (rows int, cols []proto.Column, rts []*refproto.Type, err error)
	desc   map[string]any
	fields []refproto.Field
	key    string
}

func c06Build(c *choice.Stream) *c06Case {
	cs := &c06Case{desc: map[string]any{}}
	// valid streams may use LowCardinality keys wider than the dictionary needs
	refproto.LCKeyWidth = c.Pick("lckeys", 0, 0, 1, 2, 3)
	defer func() { refproto.LCKeyWidth = 0 }()
	cs.desc["lc_key_width"] = refproto.LCKeyWidth
	rev := proto.Version
	if c.Bool("rev.old", 1, 4) {
		rev = revMenu()[c.Draw("rev", len(revMenu()))]
	}
	kind := []string{"block", "block-auto", "column", "message", "hostile-type", "bare-target"}[c.Weighted("kind", 12, 6, 6, 6, 2, 1)]
	cs.desc["kind"], cs.desc["revision"] = kind, rev
	switch kind {
	case "block", "block-auto":
		cols := DrawCols(c, "cols", 3, 2)
		rows := gen.DrawRows(c, "rows")
		blk := DrawBlock(c, cols, rows)
		for i := range blk.Cols {
			// the type string the library itself would put on the wire
			if col, err := gen.NewCol(cols[i].Type); err == nil && blk.Cols[i].Type == cols[i].Type {
				// (a server spelling such as Decimal(39, 10) stays as drawn)
				blk.Cols[i].Type = string(col.Type())
			}
		}
		var w refproto.W
		if err := refproto.EncodeBlock(&w, rev, blk); err != nil {
			panic(err)
		}
		cs.valid = w.B
		rr := &refproto.R{B: w.B, Trace: &cs.fields}
		if _, err := refproto.DecodeBlock(rr, rev); err != nil {
			panic(fmt.Sprintf("reference cannot re-read its own block: %v", err))
		}
		var warm []byte
		if c.Bool("reuse.targets", 1, 2) {
			wblk := DrawBlock(c, cols, c.Range("warm.rows", 1, 5))
			for i := range wblk.Cols {
				wblk.Cols[i].Type = blk.Cols[i].Type
			}
			var ww refproto.W
			if err := refproto.EncodeBlock(&ww, rev, wblk); err != nil {
				panic(err)
			}
			warm = ww.B
			cs.desc["reused_targets"] = true
		}
		// LowCardinality columns may be bound to the non-generic target, which
		// exposes dictionary and keys instead of values
		lcraw := kind == "block" && c.Bool("lcraw", 1, 3)
		auto := kind == "block-auto"
		if auto {
			for _, bc := range blk.Cols {
				var a proto.ColAuto
				if a.Infer(proto.ColumnType(bc.Type)) != nil {
					auto = false
				}
			}
		}
		cs.desc["cols"], cs.desc["rows"], cs.desc["auto"] = colNames(cols), rows, auto
		cs.key = kind
		cs.decode = func(data []byte) (int, []proto.Column, []*refproto.Type, error) {
			rd := proto.NewReader(&simio.FaultyReader{Data: data})
			var b proto.Block
			if auto {
				var res proto.Results
				if err := b.DecodeBlock(rd, rev, res.Auto()); err != nil {
					return 0, nil, nil, err
				}
				var out []proto.Column
				for _, rc := range res {
					if col, ok := rc.Data.(proto.Column); ok {
						out = append(out, col)
					}
				}
				return b.Rows, out, nil, nil
			}
			typed, raw := ResultTargets(cols)
			var rts []*refproto.Type
			for i, x := range cols {
				rts = append(rts, x.RT)
				if lcraw && x.RT.Kind == refproto.KLowCard {
					idx, err := gen.NewCol(x.RT.Elems[0].Name)
					if err != nil {
						panic(err)
					}
					t := &proto.ColLowCardinalityRaw{Index: idx, Key: proto.KeyUInt8}
					typed[i].Data, raw[i], rts[i] = t, t, nil
				}
			}
			if len(warm) > 0 {
				// result columns are reused across blocks: fill them from a valid block first
				var wb proto.Block
				if err := wb.DecodeBlock(proto.NewReader(&simio.FaultyReader{Data: warm}), rev, typed); err != nil {
					panic(fmt.Sprintf("valid warm-up block rejected: %v", err))
				}
			}
			if err := b.DecodeBlock(rd, rev, typed); err != nil {
				return 0, nil, nil, err
			}
			if b.Columns == 0 {
				// the empty end marker carries no columns: the targets are not part of it
				return b.Rows, nil, nil, nil
			}
			return b.Rows, raw, rts, nil
		}
	case "bare-target":
		// A typed target as a caller writes it down without parameters: the
		// precision, time zone or enum values are to come from the wire. A valid
		// block (damaged like any other) of exactly that type.
		menu := []struct {
			ty  string
			new func() proto.ColResult
		}{
			{"DateTime64(3)", func() proto.ColResult { return new(proto.ColDateTime64) }},
			{"DateTime64(6, 'UTC')", func() proto.ColResult { return new(proto.ColDateTime64) }},
			{"Nullable(DateTime64(3))", func() proto.ColResult { return new(proto.ColDateTime64).Nullable() }},
			{"Array(DateTime64(9))", func() proto.ColResult { return new(proto.ColDateTime64).Array() }},
			{"Array(Nullable(DateTime64(3)))", func() proto.ColResult {
				return proto.NewArray[proto.Nullable[time.Time]](new(proto.ColDateTime64).Nullable())
			}},
			{"DateTime('Europe/Berlin')", func() proto.ColResult { return new(proto.ColDateTime) }},
			{"Nullable(DateTime('UTC'))", func() proto.ColResult { return new(proto.ColDateTime).Nullable() }},
			{"Enum8('a' = 1, 'b' = 2)", func() proto.ColResult { return new(proto.ColEnum) }},
			{"Nullable(Enum8('a' = 1, 'b' = 2))", func() proto.ColResult { return proto.NewColNullable[string](new(proto.ColEnum)) }},
			{"Array(Enum16('p' = 1, 'q' = 300))", func() proto.ColResult { return proto.NewArray[string](new(proto.ColEnum)) }},
			{"Interval Day", func() proto.ColResult { return new(proto.ColInterval) }},
		}
		pick := menu[c.Draw("bare.type", len(menu))]
		rt, err := refproto.ParseType(pick.ty)
		if err != nil {
			panic(err)
		}
		rows := c.Range("bare.rows", 1, 4)
		blk := &refproto.Block{Rows: rows, BucketNum: -1, Cols: []refproto.Column{{Name: "c", Type: pick.ty, Vals: gen.Values(c.Sub("bare.vals"), rt, rows)}}}
		var w refproto.W
		if err := refproto.EncodeBlock(&w, rev, blk); err != nil {
			panic(err)
		}
		cs.valid = w.B
		rr := &refproto.R{B: w.B, Trace: &cs.fields}
		if _, err := refproto.DecodeBlock(rr, rev); err != nil {
			panic(err)
		}
		cs.desc["type"], cs.desc["rows"] = pick.ty, rows
		cs.key = "bare-target"
		cs.decode = func(data []byte) (int, []proto.Column, []*refproto.Type, error) {
			var b proto.Block
			tgt := proto.Results{{Name: "c", Data: pick.new()}}
			if err := b.DecodeBlock(proto.NewReader(&simio.FaultyReader{Data: data}), rev, tgt); err != nil {
				return 0, nil, nil, err
			}
			if b.Columns == 0 {
				return b.Rows, nil, nil, nil
			}
			return b.Rows, []proto.Column{tgt[0].Data.(proto.Column)}, nil, nil
		}
	case "hostile-type":
		// A block header whose column type string is itself the attack: the type
		// comes from the wire and drives inference (recursion depth, sizes parsed
		// out of it). Everything else about the block is small and valid.
		var ty string
		depth := c.Pick("ht.depth", 3, 40, 1000, 30000)
		if c.Bool("ht.verydeep", 1, 100) {
			depth = 2300000 // about 16 MB of type string, still below the string cap
		}
		wrappers := []string{"Array(", "Nullable(", "LowCardinality(", "Map(String, ", "Tuple("}
		inner := []string{"UInt8", "String", "Nothing", "FixedString(8)", ""}[c.Draw("ht.inner", 5)]
		switch c.Draw("ht.shape", 5) {
		case 0, 1:
			w := wrappers[c.Draw("ht.wrapper", len(wrappers))]
			if depth > 1000000 {
				depth = ((1 << 25) - 64) / (len(w) + 1) // as deep as the string cap of the scratch copy lets this wrapper go
			}
			closing := depth
			if c.Bool("ht.unbalanced", 1, 4) {
				closing = c.Draw("ht.closing", depth+1)
			}
			ty = strings.Repeat(w, depth) + inner + strings.Repeat(")", closing)
		case 2:
			var sb strings.Builder
			d := min(depth, 30000)
			for i := 0; i < d; i++ {
				sb.WriteString(wrappers[c.Draw("ht.mix", 3)])
			}
			sb.WriteString(inner)
			sb.WriteString(strings.Repeat(")", d))
			ty = sb.String()
		case 3:
			n := []string{"0", "1", "-1", "255", "65536", "2147483648", "1099511627776", "9223372036854775807", "18446744073709551616", "1e9", ""}[c.Draw("ht.n", 11)]
			ty = []string{"FixedString(%s)", "DateTime64(%s)", "Decimal(%s, 2)", "Decimal(9, %s)", "Decimal32(%s)", "DateTime64(%s, 'UTC')", "Array(FixedString(%s))", "Enum8('a' = %s)", "Enum16('a' = %s, 'b' = %s)"}[c.Draw("ht.param", 9)]
			ty = strings.ReplaceAll(ty, "%s", n)
		default:
			odd := []string{"Enum8(", "Enum8()", "Enum8('a')", "Enum8('a' = )", "Enum8('a' = 1, 'a' = 2)", "Enum16('' = 1)", "DateTime('Nowhere/Land')", "DateTime64(3, '')", "Map(String)", "Map(,)", "Tuple()", "Tuple(,)", "()", "(", ")", "Array", "Array()", "DateTime64", "Decimal", "FixedString", "Enum8", "Enum16", "Map", "Tuple", "Nullable", "LowCardinality", "Nullable(DateTime64)", "Array(DateTime64)", "Nullable()", "LowCardinality()", "LowCardinality(Nullable())", "IntervalFortnight", "Interval", "Nested(a UInt8)", "SimpleAggregateFunction(sum, UInt64)", "\x00", "Array(\x00)"}
			ty = odd[c.Draw("ht.odd", len(odd))]
		}
		rows := c.Pick("ht.rows", 0, 1, 3)
		var w refproto.W
		if rev >= refproto.RevBlockInfo {
			w.UVarint(1)
			w.Bool(false)
			w.UVarint(2)
			w.I32(-1)
			w.UVarint(0)
		}
		w.UVarint(1)
		w.UVarint(uint64(rows))
		w.Str("c")
		w.Str(ty)
		if rev >= refproto.RevCustomSerialization {
			w.Byte(0)
		}
		w.B = append(w.B, c.Bytes("ht.data", c.Pick("ht.datalen", 0, 3, 64))...)
		cs.valid = w.B
		cs.key = "hostile-type"
		shown := ty
		if len(shown) > 80 {
			shown = fmt.Sprintf("%s...(%d bytes)", shown[:60], len(ty))
		}
		typed := c.Bool("ht.typed", 1, 3)
		typedKind := c.Draw("ht.typed.kind", 8)
		cs.desc["type"], cs.desc["rows"], cs.desc["typed_target"] = shown, rows, typed
		cs.decode = func(data []byte) (int, []proto.Column, []*refproto.Type, error) {
			rd := proto.NewReader(&simio.FaultyReader{Data: data})
			var b proto.Block
			if typed {
				// a typed target is asked to adopt the type from the wire
				var data proto.ColResult
				switch typedKind {
				case 0:
					data = new(proto.ColStr).Array()
				case 1:
					data = new(proto.ColDateTime64)
				case 2:
					data = new(proto.ColEnum)
				case 3:
					data = proto.NewMap[string, string](new(proto.ColStr), new(proto.ColStr))
				case 4:
					data = proto.ColTuple{new(proto.ColStr), new(proto.ColDateTime)}
				case 5:
					data = new(proto.ColInterval)
				case 6:
					data = new(proto.ColDateTime64).Array()
				default:
					data = new(proto.ColDateTime)
				}
				tgt := proto.Results{{Name: "c", Data: data}}
				if err := b.DecodeBlock(rd, rev, tgt); err != nil {
					return 0, nil, nil, err
				}
				return b.Rows, []proto.Column{tgt[0].Data.(proto.Column)}, nil, nil
			}
			var res proto.Results
			if err := b.DecodeBlock(rd, rev, res.Auto()); err != nil {
				return 0, nil, nil, err
			}
			var out []proto.Column
			for _, rc := range res {
				if col, ok := rc.Data.(proto.Column); ok {
					out = append(out, col)
				}
			}
			return b.Rows, out, nil, nil
		}
	case "column":
		col := DrawCols(c, "col", 1, 2)[0]
		rows := 1 + gen.DrawRows(c, "rows")
		vals := gen.Values(c.Sub("vals"), col.RT, rows)
		if col.RT.Kind == refproto.KLowCard && c.Bool("lc.exact", 1, 3) {
			// a dictionary that fills its key type, or misses doing so by one
			d := c.Pick("lc.exact.n", 254, 255, 255, 256, 257, 65534, 65535, 65536)
			pool := gen.Values(c.Sub("lc.exact.vals"), col.RT, 3*d)
			seen := map[string]bool{}
			var distinct []any
			for _, v := range pool {
				k := fmt.Sprintf("%#v", v)
				if !seen[k] && len(distinct) < d {
					seen[k] = true
					distinct = append(distinct, v)
				}
			}
			if len(distinct) == d {
				vals = append(distinct, distinct[:c.Range("lc.exact.repeat", 0, 5)]...)
				rows = len(vals)
				cs.desc["lc_dictionary"] = d
			}
		}
		var w refproto.W
		refproto.EncodePrefix(&w, col.RT)
		if err := refproto.EncodeData(&w, col.RT, vals); err != nil {
			panic(err)
		}
		cs.valid = w.B
		rr := &refproto.R{B: w.B, Trace: &cs.fields}
		_ = refproto.DecodePrefix(rr, col.RT)
		if _, err := refproto.DecodeData(rr, col.RT, rows); err != nil {
			panic(err)
		}
		cs.desc["col"], cs.desc["rows"] = col.Type, rows
		cs.key = "column:" + kindName(col.RT)
		cs.decode = func(data []byte) (int, []proto.Column, []*refproto.Type, error) {
			target, err := gen.NewCol(col.Type)
			if err != nil {
				panic(err)
			}
			rd := proto.NewReader(&simio.FaultyReader{Data: data})
			if s, ok := target.(proto.StateDecoder); ok {
				if err := s.DecodeState(rd); err != nil {
					return 0, nil, nil, err
				}
			}
			if err := target.DecodeColumn(rd, rows); err != nil {
				return 0, nil, nil, err
			}
			return rows, []proto.Column{target}, []*refproto.Type{col.RT}, nil
		}
	default:
		var buf proto.Buffer
		msg := []string{"client-hello", "server-hello", "query", "progress", "profile", "exception", "table-columns", "block-info", "client-data"}[c.Draw("msg", 9)]
		cs.desc["message"] = msg
		cs.key = "message:" + msg
		skip := 0
		var dec func(rd *proto.Reader) error
		switch msg {
		case "client-hello":
			proto.ClientHello{Name: drawText(c, "n"), Major: 3, Minor: 2, ProtocolVersion: rev, Database: drawText(c, "d"), User: drawText(c, "u"), Password: drawText(c, "p")}.Encode(&buf)
			skip = 1
			dec = func(rd *proto.Reader) error { var m proto.ClientHello; return m.Decode(rd) }
		case "server-hello":
			m := proto.ServerHello{Name: drawText(c, "n"), Major: 1, Minor: 7, Revision: rev, Timezone: "UTC", DisplayName: drawText(c, "dn"), Patch: 9}
			m.EncodeAware(&buf, rev)
			skip = 1
			dec = func(rd *proto.Reader) error { var m proto.ServerHello; return m.DecodeAware(rd, rev) }
		case "query":
			q := proto.Query{ID: drawText(c, "id"), Body: drawText(c, "body"), Secret: "s", Stage: proto.StageComplete, Compression: proto.CompressionEnabled,
				Info:     proto.ClientInfo{ProtocolVersion: rev, Major: 1, Minor: 2, Patch: 3, Interface: proto.InterfaceTCP, Query: proto.ClientQueryInitial, InitialUser: "u", InitialQueryID: "q", InitialAddress: "1.2.3.4:5", ClientName: "x", QuotaKey: "k"},
				Settings: []proto.Setting{{Key: "a", Value: "1", Important: true}}, Parameters: []proto.Parameter{{Key: "p", Value: "v"}}}
			q.EncodeAware(&buf, rev)
			skip = 1
			dec = func(rd *proto.Reader) error { var m proto.Query; return m.DecodeAware(rd, rev) }
		case "progress":
			proto.Progress{Rows: 1 << 33, Bytes: 1 << 40, TotalRows: 3, WroteRows: 300, WroteBytes: 70000, ElapsedNs: 1 << 50}.EncodeAware(&buf, rev)
			dec = func(rd *proto.Reader) error { var m proto.Progress; return m.DecodeAware(rd, rev) }
		case "profile":
			proto.Profile{Rows: 1 << 20, Blocks: 3, Bytes: 1 << 33, AppliedLimit: true, RowsBeforeLimit: 200, CalculatedRowsBeforeLimit: true}.EncodeAware(&buf, rev)
			skip = 1
			dec = func(rd *proto.Reader) error { var m proto.Profile; return m.DecodeAware(rd, rev) }
		case "exception":
			e := proto.Exception{Code: 60, Name: drawText(c, "en"), Message: drawText(c, "em"), Stack: "st", Nested: false}
			e.EncodeAware(&buf, rev)
			dec = func(rd *proto.Reader) error { var m proto.Exception; return m.DecodeAware(rd, rev) }
		case "table-columns":
			proto.TableColumns{First: drawText(c, "f"), Second: drawText(c, "s")}.EncodeAware(&buf, rev)
			skip = 1
			dec = func(rd *proto.Reader) error { var m proto.TableColumns; return m.DecodeAware(rd, rev) }
		case "block-info":
			proto.BlockInfo{Overflows: true, BucketNum: -1}.Encode(&buf)
			dec = func(rd *proto.Reader) error { var m proto.BlockInfo; return m.Decode(rd) }
		default:
			proto.ClientData{TableName: drawText(c, "t")}.EncodeAware(&buf, rev)
			dec = func(rd *proto.Reader) error { var m proto.ClientData; return m.DecodeAware(rd, rev) }
		}
		cs.valid = append([]byte(nil), buf.Buf[skip:]...)
		cs.decode = func(data []byte) (int, []proto.Column, []*refproto.Type, error) {
			return 0, nil, nil, dec(proto.NewReader(&simio.FaultyReader{Data: data}))
		}
	}
	return cs
}

func varintBytes(v uint64) []byte { return binary.AppendUvarint(nil, v) }

// c06Damage applies one drawn fault to data.
func c06Damage(c *choice.Stream, data []byte, fields []refproto.Field, other []byte) ([]byte, string) {
	if len(data) == 0 {
		return data, "none"
	}
	mode := c.Weighted("dmg", 8, 3, 3, 1)
	if len(fields) == 0 && mode == 0 {
		mode = 1
	}
	switch mode {
	case 0:
		f := fields[c.Draw("dmg.field", len(fields))]
		if f.Off+f.Len > len(data) {
			return data, "none"
		}
		var cur uint64
		switch f.Kind {
		case "uvarint":
			cur, _ = binary.Uvarint(data[f.Off : f.Off+f.Len])
		case "u64":
			cur = binary.LittleEndian.Uint64(data[f.Off:])
		case "u32":
			cur = uint64(binary.LittleEndian.Uint32(data[f.Off:]))
		default:
			for i := 0; i < f.Len && i < 8; i++ {
				cur |= uint64(data[f.Off+i]) << (8 * i)
			}
		}
		v := c06Specials[c.Draw("dmg.special", len(c06Specials))]
		switch c.Draw("dmg.rel", 4) {
		case 0:
			v = cur + 1
		case 1:
			v = cur - 1
		}
		var repl []byte
		if f.Kind == "uvarint" {
			repl = varintBytes(v)
		} else {
			var b [8]byte
			binary.LittleEndian.PutUint64(b[:], v)
			repl = b[:f.Len]
		}
		out := append(append(append([]byte{}, data[:f.Off]...), repl...), data[f.Off+f.Len:]...)
		return out, fmt.Sprintf("field %s@%d %d->%d", f.Kind, f.Off, cur, v)
	case 1:
		out := append([]byte{}, data...)
		n := c.Range("flip.n", 1, 3)
		var pos []int
		for i := 0; i < n; i++ {
			p := c.Draw("flip.at", len(out))
			if c.Bool("flip.front", 1, 2) {
				p = c.Draw("flip.front.at", min(len(out), 48))
			}
			out[p] ^= 1 << c.Draw("flip.bit", 8)
			pos = append(pos, p)
		}
		return out, fmt.Sprintf("flip@%v", pos)
	case 2:
		a := c.Draw("splice.a", len(data))
		b := a + 1 + c.Draw("splice.len", min(len(data)-a, 64))
		switch c.Draw("splice.kind", 3) {
		case 0: // duplicate
			out := append(append(append([]byte{}, data[:b]...), data[a:b]...), data[b:]...)
			return out, fmt.Sprintf("duplicate[%d:%d]", a, b)
		case 1: // drop
			out := append(append([]byte{}, data[:a]...), data[b:]...)
			return out, fmt.Sprintf("drop[%d:%d]", a, b)
		default: // swap with the following segment of the same size
			out := append([]byte{}, data...)
			for i := a; i < b && i+(b-a) < len(out); i++ {
				out[i], out[i+(b-a)] = out[i+(b-a)], out[i]
			}
			return out, fmt.Sprintf("swap[%d:%d]", a, b)
		}
	default:
		k := c.Draw("glue.at", len(data))
		j := 0
		if len(other) > 0 {
			j = c.Draw("glue.from", len(other))
		}
		out := append(append([]byte{}, data[:k]...), other[j:]...)
		return out, fmt.Sprintf("glue[:%d]+other[%d:]", k, j)
	}
}

func runC06(t *testing.T, c *choice.Stream, r *Result, opt RunOpt) {
	cs := c06Build(c)
	data := cs.valid
	var what []string
	nd := c.Weighted("ndamage", 6, 2, 1) + 1
	if cs.key == "hostile-type" && !c.Bool("ht.damage", 1, 4) {
		nd = 0 // the type string is the damage
	}
	for i := 0; i < nd; i++ {
		var d string
		fields := cs.fields
		if i > 0 {
			fields = nil // offsets moved
		}
		if i == 0 && cs.desc["lc_dictionary"] != nil && len(fields) > 0 && c.Bool("lc.exact.keyfault", 2, 3) {
			// one of the keys (the last fields of the column) set to the largest
			// value of its width: one past a dictionary that just fails to fill it
			f := fields[len(fields)-1-c.Draw("lc.exact.key", min(len(fields), 6))]
			if f.Kind != "uvarint" && f.Off+f.Len <= len(data) {
				data = append([]byte{}, data...)
				for j := 0; j < f.Len; j++ {
					data[f.Off+j] = 0xff
				}
				what = append(what, fmt.Sprintf("key %s@%d ->max", f.Kind, f.Off))
				continue
			}
		}
		data, d = c06Damage(c, data, fields, cs.valid)
		what = append(what, d)
	}
	h := fnv.New64a()
	h.Write(data)
	r.Digest = fmt.Sprintf("%016x", h.Sum64())
	r.NonTriv = string(data) != string(cs.valid) || cs.key == "hostile-type"
	r.Cell = fmt.Sprint(cs.desc["kind"])
	cs.desc["damage"] = what
	cs.desc["bytes"] = len(data)
	r.Sample = cs.desc
	for _, w := range what {
		k := w
		if i := strings.IndexAny(k, "@[ "); i > 0 {
			k = k[:i]
		}
		r.Fire(k)
	}

	var ms0, ms1 runtime.MemStats
	runtime.ReadMemStats(&ms0)
	var rows int
	var cols []proto.Column
	var rts []*refproto.Type
	var derr error
	stage := "decode"
	func() {
		defer func() {
			if p := recover(); p != nil {
				st := string(debug.Stack())
				frame := firstLibFrame(st)
				if stage == "row-access" {
					// the root cause sits in the outermost column whose state is inconsistent
					frame = lastLibFrame(st)
				}
				r.Violate("panic", "panic:"+stage+":"+frame, "%s of a damaged %v (%v) panicked: %v\n%.1800s", stage, cs.desc["kind"], what, p, st)
			}
		}()
		rows, cols, rts, derr = cs.decode(data)
		if derr != nil {
			return
		}
		// a successful decode must be internally consistent
		stage = "row-access"
		for i, col := range cols {
			if col.Rows() != rows {
				r.Violate("inconsistent-result", "rows-mismatch:"+cs.key, "decode succeeded with %d rows but column %d (%s) reports %d (%v)", rows, i, col.Type(), col.Rows(), what)
				return
			}
			if rts != nil && rts[i] == nil {
				continue // dictionary and keys: no row accessor
			}
			if rts != nil {
				if _, err := gen.ReadAll(col, rts[i], rows); err != nil {
					r.Harness("cannot read column %s: %v", col.Type(), err)
					return
				}
			} else {
				// inferred targets: no model of the values, but every accessor must work
				gen.TouchRows(col, rows)
			}
		}
	}()
	runtime.ReadMemStats(&ms1)
	// cumulative allocation, so a large input is allowed its share: growing
	// buffers re-allocate what they hold several times over
	if grew := ms1.TotalAlloc - ms0.TotalAlloc; grew > 512<<20+8*uint64(len(data)) && r.Outcome != "violation" {
		r.Violate("allocation", "alloc:"+cs.key, "decoding %d damaged bytes (%v) allocated %d MiB", len(data), what, grew>>20)
	}
	if derr == nil {
		r.Probe("damaged_input_accepted")
	}
}
