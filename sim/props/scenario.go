package props

import (
	"context"
	"fmt"
	"io"
	"strings"
	"time"

	"github.com/ClickHouse/ch-go"
	"github.com/ClickHouse/ch-go/proto"
	sdktrace "go.opentelemetry.io/otel/sdk/trace"
	"go.opentelemetry.io/otel/sdk/trace/tracetest"
	"go.uber.org/zap"
	"go.uber.org/zap/zapcore"

	"chgosim/choice"
	"chgosim/gen"
	"chgosim/refproto"
	"chgosim/simnet"
)

// ---- configuration of one connection ----

type Conf struct {
	ClientRev   int
	ServerRev   int
	Comp        ch.Compression
	Level       int
	ReadTimeout time.Duration
	// HandshakeTimeout: 0 = the library's default (minutes). A short one is long
	// past by the time a query's response pauses: nothing of it may linger
	HandshakeTimeout time.Duration
	Hello            refproto.ServerHello
	User, Pass       string
	Database         string
	QuotaKey         string
	ClientName       string
	Settings         []ch.Setting
	Otel             bool
	DebugLog         bool // a debug-level logger: the library's debug branches run
	FrameChunk       int  // reference server: max payload bytes per compressed frame (0 = one frame per block)
	LCKeyWidth       int  // reference server: LowCardinality key type at least this wide
	MixMethods       int  // reference server: every n-th frame is compressed with another method (0: never)
	frameNo          int
}

func (c *Conf) Negotiated() int { return min(c.ClientRev, c.ServerRev) }

// Method is the frame method byte that corresponds to the client's compression setting.
func (c *Conf) Method() byte {
	switch c.Comp {
	case ch.CompressionLZ4, ch.CompressionLZ4HC:
		return refproto.MethodLZ4
	case ch.CompressionZSTD:
		return refproto.MethodZSTD
	case ch.CompressionNone:
		return refproto.MethodNone
	}
	return 0
}

// ServerMethod is the method of the next frame the reference server writes.
func (c *Conf) ServerMethod() byte {
	if c.MixMethods > 0 && c.Comp != ch.CompressionDisabled {
		// a server is free to choose the method frame by frame (an incompressible
		// block goes out as None, say): every n-th frame uses another method
		c.frameNo++
		if c.frameNo%c.MixMethods == 0 {
			return []byte{refproto.MethodNone, refproto.MethodLZ4, refproto.MethodZSTD}[(c.frameNo/c.MixMethods)%3]
		}
	}
	switch c.Comp {
	case ch.CompressionLZ4, ch.CompressionLZ4HC:
		return refproto.MethodLZ4
	case ch.CompressionZSTD:
		return refproto.MethodZSTD
	case ch.CompressionNone:
		return refproto.MethodNone
	}
	return 0
}

var compMenu = []ch.Compression{ch.CompressionDisabled, ch.CompressionNone, ch.CompressionLZ4, ch.CompressionLZ4HC, ch.CompressionZSTD}

// revMenu: the supported window (settings as strings) with both neighbours of
// every threshold inside it.
// playOldRev adds revision 54428, one below the window (no settings as
// strings; the reference knows it for the client's packets only): set by the
// checks whose subject is what the client writes at a negotiated revision.
var playOldRev bool

func revMenu() []int {
	var out []int
	seen := map[int]bool{}
	lowest := refproto.RevSettingsAsStrings
	if playOldRev {
		lowest--
	}
	add := func(v int) {
		if v >= lowest && v <= 54460 && !seen[v] {
			seen[v] = true
			out = append(out, v)
		}
	}
	for _, t := range refproto.Thresholds {
		add(t - 1)
		add(t)
		add(t + 1)
	}
	add(54460)
	return out
}

func DrawConf(c *choice.Stream) *Conf {
	revs := revMenu()
	cf := &Conf{ClientRev: 54460, ServerRev: 54460}
	if c.Bool("rev.vary", 1, 2) {
		cf.ClientRev = revs[c.Draw("rev.client", len(revs))]
		if c.Bool("rev.server.new", 1, 3) {
			cf.ServerRev = c.Pick("rev.server.hi", 54460, 54461, 54470, 54500)
		} else {
			cf.ServerRev = revs[c.Draw("rev.server", len(revs))]
		}
	}
	cf.Comp = compMenu[c.Draw("comp", len(compMenu))]
	if cf.Comp == ch.CompressionLZ4HC {
		cf.Level = c.Pick("comp.level", 0, 1, 3, 9, 12, 13)
	}
	cf.ReadTimeout = []time.Duration{0, 10 * time.Millisecond, time.Second, ch.NoTimeout}[c.Weighted("readtimeout", 8, 2, 2, 1)]
	cf.DebugLog = c.Bool("debuglog", 1, 4)
	cf.Otel = c.Bool("otel", 1, 4) // instrumented code path (global no-op providers unless C12 installs an SDK)
	cf.FrameChunk = c.Pick("srv.framechunk", 0, 0, 0, 3, 33, 1000)
	cf.LCKeyWidth = c.Pick("srv.lckeys", 0, 0, 0, 1, 2, 3)
	cf.MixMethods = c.Pick("srv.mixmethods", 0, 0, 0, 1, 2, 3)
	cf.Hello = refproto.ServerHello{Name: "ClickHouse", Major: 23, Minor: 8, Revision: cf.ServerRev, Timezone: "UTC", DisplayName: "sim", Patch: 3}
	return cf
}

// otelSDK: when set (C12), clients with instrumentation enabled use an SDK
// tracer provider with a synchronous in-memory exporter instead of the global
// no-op provider, so that span recording code really runs.
var otelSDK bool

// debugLogger is enabled at debug level and discards what it is given.
func debugLogger() *zap.Logger {
	enc := zapcore.NewJSONEncoder(zap.NewProductionEncoderConfig())
	return zap.New(zapcore.NewCore(enc, zapcore.AddSync(io.Discard), zapcore.DebugLevel))
}

func (cf *Conf) Options() ch.Options {
	o := cf.options()
	if cf.DebugLog {
		o.Logger = debugLogger()
	}
	if (cf.Otel || otelOverride) && otelSDK {
		o.TracerProvider = sdktrace.NewTracerProvider(sdktrace.WithSyncer(tracetest.NewInMemoryExporter()))
	}
	return o
}

func (cf *Conf) options() ch.Options {
	return ch.Options{
		ProtocolVersion:              cf.ClientRev,
		Compression:                  cf.Comp,
		CompressionLevel:             ch.CompressionLevel(cf.Level),
		ReadTimeout:                  cf.ReadTimeout,
		HandshakeTimeout:             cf.HandshakeTimeout,
		User:                         cf.User,
		Password:                     cf.Pass,
		Database:                     cf.Database,
		QuotaKey:                     cf.QuotaKey,
		ClientName:                   cf.ClientName,
		Settings:                     cf.Settings,
		OpenTelemetryInstrumentation: cf.Otel || otelOverride,
	}
}

func (cf *Conf) EffReadTimeout() time.Duration {
	if cf.ReadTimeout <= 0 {
		// the default; also the scale used for bounds and pauses when the client
		// runs without a read timeout (ch.NoTimeout)
		return ch.DefaultReadTimeout
	}
	return cf.ReadTimeout
}

// HandshakeSteps is the server side of a successful handshake.
func (cf *Conf) HandshakeSteps() []simnet.Step {
	steps := []simnet.Step{{Label: "hello", OnPacket: func(p *refproto.ClientPacket) []byte {
		var w refproto.W
		refproto.EncodeHello(&w, cf.Hello, int(p.Revision))
		return w.B
	}}}
	if cf.Negotiated() >= refproto.RevQuotaKeyAddendum {
		steps = append(steps, simnet.Step{Label: "addendum", OnPacket: func(*refproto.ClientPacket) []byte { return nil }})
	}
	return steps
}

// ---- server packets of a response ----

type SPacket struct {
	Delay  time.Duration // the server waits this long before sending the packet
	Kind   string        // data totals progress profile events log tablecolumns exception eos raw
	Block  *refproto.Block
	Prog   refproto.Progress
	Prof   refproto.Profile
	Exc    []refproto.Exception
	A, B   string
	Raw    []byte
	Events []PEvent
	Logs   []LogRow
}

type PEvent struct {
	Host   string
	Time   uint64
	Thread uint64
	Type   int64
	Name   string
	Value  int64
}

type LogRow struct {
	Time     uint64
	Micro    uint64
	Host     string
	QueryID  string
	Thread   uint64
	Priority int64
	Source   string
	Text     string
}

func colOf[T any](rows []T, f func(T) any) []any {
	out := make([]any, len(rows))
	for i, r := range rows {
		out[i] = f(r)
	}
	return out
}

func eventsBlock(ev []PEvent) *refproto.Block {
	return &refproto.Block{Rows: len(ev), BucketNum: -1, Cols: []refproto.Column{
		{Name: "host_name", Type: "String", Vals: colOf(ev, func(e PEvent) any { return e.Host })},
		{Name: "current_time", Type: "DateTime", Vals: colOf(ev, func(e PEvent) any { return e.Time })},
		{Name: "thread_id", Type: "UInt64", Vals: colOf(ev, func(e PEvent) any { return e.Thread })},
		{Name: "type", Type: "Int8", Vals: colOf(ev, func(e PEvent) any { return e.Type })},
		{Name: "name", Type: "String", Vals: colOf(ev, func(e PEvent) any { return e.Name })},
		{Name: "value", Type: "Int64", Vals: colOf(ev, func(e PEvent) any { return e.Value })},
	}}
}

func logsBlock(l []LogRow) *refproto.Block {
	return &refproto.Block{Rows: len(l), BucketNum: -1, Cols: []refproto.Column{
		{Name: "event_time", Type: "DateTime", Vals: colOf(l, func(e LogRow) any { return e.Time })},
		{Name: "event_time_microseconds", Type: "UInt32", Vals: colOf(l, func(e LogRow) any { return e.Micro })},
		{Name: "host_name", Type: "String", Vals: colOf(l, func(e LogRow) any { return e.Host })},
		{Name: "query_id", Type: "String", Vals: colOf(l, func(e LogRow) any { return e.QueryID })},
		{Name: "thread_id", Type: "UInt64", Vals: colOf(l, func(e LogRow) any { return e.Thread })},
		{Name: "priority", Type: "Int8", Vals: colOf(l, func(e LogRow) any { return e.Priority })},
		{Name: "source", Type: "String", Vals: colOf(l, func(e LogRow) any { return e.Source })},
		{Name: "text", Type: "String", Vals: colOf(l, func(e LogRow) any { return e.Text })},
	}}
}

// Encode returns the wire bytes of the packet at the negotiated revision.
func (p *SPacket) Encode(cf *Conf) []byte {
	refproto.FrameChunk, refproto.LCKeyWidth = cf.FrameChunk, cf.LCKeyWidth
	defer func() { refproto.FrameChunk, refproto.LCKeyWidth = 0, 0 }()
	var w refproto.W
	rev := cf.Negotiated()
	var err error
	switch p.Kind {
	case "data":
		err = refproto.EncodeBlockPacket(&w, refproto.CodeData, p.Block, rev, cf.ServerMethod())
	case "totals":
		err = refproto.EncodeBlockPacket(&w, refproto.CodeTotals, p.Block, rev, cf.ServerMethod())
	case "extremes":
		err = refproto.EncodeBlockPacket(&w, refproto.CodeExtremes, p.Block, rev, cf.ServerMethod())
	case "progress":
		refproto.EncodeProgress(&w, p.Prog, rev)
	case "profile":
		refproto.EncodeProfile(&w, p.Prof)
	case "events":
		err = refproto.EncodeBlockPacket(&w, refproto.CodeProfileEvents, eventsBlock(p.Events), rev, 0)
	case "log":
		err = refproto.EncodeBlockPacket(&w, refproto.CodeLog, logsBlock(p.Logs), rev, 0)
	case "tablecolumns":
		refproto.EncodeTableColumns(&w, p.A, p.B)
	case "exception":
		refproto.EncodeException(&w, p.Exc)
	case "eos":
		refproto.EncodeEndOfStream(&w)
	case "pong":
		refproto.EncodePong(&w)
	case "raw":
		w.Raw(p.Raw)
	default:
		panic("spacket kind " + p.Kind)
	}
	if err != nil {
		panic(fmt.Sprintf("reference encoder: %v", err))
	}
	return w.B
}

// ---- select scenario ----

type ColSpec struct {
	Name string
	Type string
	RT   *refproto.Type
}

func DrawCols(c *choice.Stream, label string, maxCols, depth int) []ColSpec {
	n := c.Range(label+".ncols", 1, maxCols)
	out := make([]ColSpec, n)
	for i := range out {
		t := gen.DrawType(c, depth)
		rt, err := refproto.ParseType(t)
		if err != nil {
			panic(err)
		}
		out[i] = ColSpec{Name: fmt.Sprintf("c%d", i), Type: t, RT: rt}
	}
	return out
}

func DrawBlock(c *choice.Stream, cols []ColSpec, rows int) *refproto.Block {
	b := &refproto.Block{Rows: rows, BucketNum: -1}
	r := c.Sub("block.vals")
	for _, cs := range cols {
		// the type as this server spells it (Decimal(P, S), time zones): same wire format
		b.Cols = append(b.Cols, refproto.Column{Name: cs.Name, Type: gen.ServerSpelling(c, cs.Type), Vals: gen.Values(r, cs.RT, rows)})
	}
	return b
}

func DrawExceptionChain(c *choice.Stream) []refproto.Exception {
	n := c.Weighted("exc.depth", 6, 2, 1, 1) + 1
	if c.Bool("exc.deep", 1, 25) {
		n = c.Pick("exc.depth.deep", 8, 31, 32, 33, 64, 100, 300) // "of any depth"
	}
	codes := []int32{60, 62, 81, 159, 241, 394, 47, 516}
	out := make([]refproto.Exception, n)
	for i := range out {
		out[i] = refproto.Exception{
			Code:    codes[c.Draw("exc.code", len(codes))],
			Name:    fmt.Sprintf("DB::Exception%d", i),
			Message: fmt.Sprintf("DB::Exception%d: message %d", i, c.Draw("exc.msg", 1000)),
			Stack:   strings.Repeat("#", c.Draw("exc.stack", 5)),
		}
	}
	return out
}

// Recorder collects everything observable about a query, in order.
type Recorder struct {
	Events   []string
	FailAt   map[string]int // callback name -> invocation number (1-based) that fails
	FailWith error          // what the failing invocation returns (ErrInjected when nil)
	Calls    map[string]int
	OnCall   func(name string, n int) // extra behaviour (cancel, ...)
}

var ErrInjected = fmt.Errorf("injected callback failure")

func (rc *Recorder) hit(name string) error {
	if rc.Calls == nil {
		rc.Calls = map[string]int{}
	}
	rc.Calls[name]++
	if rc.OnCall != nil {
		rc.OnCall(name, rc.Calls[name])
	}
	if rc.FailAt != nil && rc.FailAt[name] == rc.Calls[name] {
		rc.Events = append(rc.Events, "fail:"+name)
		if rc.FailWith != nil {
			return rc.FailWith
		}
		return ErrInjected
	}
	return nil
}

func fmtVals(v []any) string { return fmt.Sprintf("%#v", v) }

// ResultTargets builds typed result columns for the given schema.
// enumAsInt makes ResultTargets bind enum columns to the plain integer
// column of their width (Enum8 -> ColInt8, Enum16 -> ColInt16): a caller that
// wants the numbers, which the library's type check allows.
var enumAsInt bool

func ResultTargets(cols []ColSpec) (proto.Results, []proto.Column) {
	var res proto.Results
	var raw []proto.Column
	for _, cs := range cols {
		col, err := gen.NewCol(cs.Type)
		if err != nil {
			panic(err)
		}
		if enumAsInt && len(cs.RT.Enum) > 0 && cs.RT.Kind != refproto.KArray && cs.RT.Kind != refproto.KNullable && cs.RT.Kind != refproto.KLowCard {
			if strings.HasPrefix(cs.Type, "Enum8(") {
				col = new(proto.ColInt8)
			} else if strings.HasPrefix(cs.Type, "Enum16(") {
				col = new(proto.ColInt16)
			}
		}
		raw = append(raw, col)
		res = append(res, proto.ResultColumn{Name: cs.Name, Data: col})
	}
	return res, raw
}

// blockEvent is the canonical form of a result event.
func blockEvent(kind string, cols []refproto.Column, rows int) string {
	var sb strings.Builder
	fmt.Fprintf(&sb, "%s rows=%d", kind, rows)
	for _, c := range cols {
		fmt.Fprintf(&sb, " | %s %s %s", c.Name, gen.LibrarySpelling(c.Type), fmtVals(c.Vals))
	}
	return sb.String()
}

// OnResultRecorder returns an OnResult that deep-copies the bound columns.
func (rc *Recorder) OnResult(cols []ColSpec, res *proto.Results) func(ctx context.Context, b proto.Block) error {
	return func(ctx context.Context, b proto.Block) error {
		var out []refproto.Column
		for i, rcCol := range *res {
			var rt *refproto.Type
			var tname string
			if i < len(cols) {
				rt, tname = cols[i].RT, cols[i].Type
			} else {
				tname = string(rcCol.Data.Type())
				t, err := refproto.ParseType(tname)
				if err != nil {
					rc.Events = append(rc.Events, "harness: unparseable type "+tname)
					return nil
				}
				rt = t
			}
			vals, err := gen.ReadAll(rcCol.Data, rt, rcCol.Data.Rows())
			if err != nil {
				rc.Events = append(rc.Events, "harness: "+err.Error())
				return nil
			}
			out = append(out, refproto.Column{Name: rcCol.Name, Type: tname, Vals: vals})
		}
		rc.Events = append(rc.Events, blockEvent("result", out, b.Rows))
		return rc.hit("result")
	}
}

func progEvent(p refproto.Progress, rev int) string {
	if rev < refproto.RevClientWriteInfo {
		p.WroteRows, p.WroteBytes = 0, 0
	}
	if rev < refproto.RevServerQueryTimeInProgress {
		p.ElapsedNs = 0
	}
	return fmt.Sprintf("progress %+v", p)
}

func (rc *Recorder) OnProgress(ctx context.Context, p proto.Progress) error {
	rc.Events = append(rc.Events, fmt.Sprintf("progress %+v", refproto.Progress{Rows: p.Rows, Bytes: p.Bytes, TotalRows: p.TotalRows, WroteRows: p.WroteRows, WroteBytes: p.WroteBytes, ElapsedNs: p.ElapsedNs}))
	return rc.hit("progress")
}

func (rc *Recorder) OnProfile(ctx context.Context, p proto.Profile) error {
	rc.Events = append(rc.Events, fmt.Sprintf("profile %+v", refproto.Profile{Rows: p.Rows, Blocks: p.Blocks, Bytes: p.Bytes, AppliedLimit: p.AppliedLimit, RowsBeforeLimit: p.RowsBeforeLimit, CalcRowsBeforeLimit: p.CalculatedRowsBeforeLimit}))
	return rc.hit("profile")
}

func evStr(e PEvent) string { return fmt.Sprintf("%+v", e) }

func (rc *Recorder) peOf(e proto.ProfileEvent) PEvent {
	return PEvent{Host: e.Host, Time: uint64(e.Time.Unix()), Thread: e.ThreadID, Type: int64(e.Type), Name: e.Name, Value: e.Value}
}

func (rc *Recorder) OnProfileEvents(ctx context.Context, ev []ch.ProfileEvent) error {
	s := "events"
	for _, e := range ev {
		s += " " + evStr(rc.peOf(e))
	}
	rc.Events = append(rc.Events, s)
	return rc.hit("events")
}

func (rc *Recorder) OnProfileEvent(ctx context.Context, e ch.ProfileEvent) error {
	rc.Events = append(rc.Events, "event "+evStr(rc.peOf(e)))
	return rc.hit("event")
}

func (rc *Recorder) logOf(l ch.Log) LogRow {
	return LogRow{Time: uint64(l.Time.Unix()), Host: l.Host, QueryID: l.QueryID, Thread: l.ThreadID, Priority: int64(l.Priority), Source: l.Source, Text: l.Text}
}

func (rc *Recorder) OnLogs(ctx context.Context, ls []ch.Log) error {
	s := "logs"
	for _, l := range ls {
		s += fmt.Sprintf(" %+v", rc.logOf(l))
	}
	rc.Events = append(rc.Events, s)
	return rc.hit("logs")
}

func (rc *Recorder) OnLog(ctx context.Context, l ch.Log) error {
	rc.Events = append(rc.Events, fmt.Sprintf("log %+v", rc.logOf(l)))
	return rc.hit("log")
}

// ---- insert scenario ----

// InputRound describes what OnInput does on one invocation.
type InputRound struct {
	Op   string // append reset-append overwrite nil eof eof-tail wrapped-eof error
	Vals [][]any
}

type InsertPlan struct {
	Cols    []ColSpec
	Initial [][]any // per column
	Rounds  []InputRound
}

func drawRoundVals(c *choice.Stream, cols []ColSpec, rows int) [][]any {
	r := c.Sub("round.vals")
	out := make([][]any, len(cols))
	for i, cs := range cols {
		out[i] = gen.Values(r, cs.RT, rows)
	}
	return out
}

// ExpectedBlocks lists, per block the server must receive, the values of each
// column: the initial contents (if any rows), then the contents after each
// callback return that leaves rows, including rows left at io.EOF.
func (p *InsertPlan) ExpectedBlocks() [][][]any {
	var blocks [][][]any
	if len(p.Initial) > 0 && len(p.Initial[0]) > 0 {
		blocks = append(blocks, p.Initial)
	}
	for _, rd := range p.Rounds {
		switch rd.Op {
		case "reset-append", "eof-tail":
			blocks = append(blocks, rd.Vals)
		}
	}
	return blocks
}

// OnInput plays the plan: one round per invocation.
func (p *InsertPlan) OnInput(cols []proto.Column, rec *Recorder) func(ctx context.Context) error {
	round := 0
	return func(ctx context.Context) error {
		if err := rec.hit("input"); err != nil {
			return err
		}
		if round >= len(p.Rounds) {
			for _, col := range cols {
				col.Reset()
			}
			return io.EOF
		}
		r := p.Rounds[round]
		round++
		for _, col := range cols {
			col.Reset()
		}
		switch r.Op {
		case "eof":
			return io.EOF
		case "reset-append", "eof-tail":
			for i, col := range cols {
				if err := gen.Fill(col, p.Cols[i].RT, r.Vals[i]); err != nil {
					return err
				}
			}
			if r.Op == "eof-tail" {
				return io.EOF
			}
		}
		return nil
	}
}
