package props

import (
	"context"
	"errors"
	"fmt"
	"hash/fnv"
	"strings"
	"testing"
	"time"

	"github.com/ClickHouse/ch-go"

	"chgosim/choice"
	"chgosim/refproto"
	"chgosim/simnet"
)

func init() {
	Register(&Prop{
		ID: "C08", Engine: "A", Quick: 700, Thorough: 20000, Level: "exploration",
		Rule: "each case = one generated response script (the scripts of C03) whose whole byte stream, followed by a Pong, is handed to the network in one piece and then replayed under several delivery schedules: at once (reference), one byte at a time, two pieces at a drawn offset (every offset for streams <= 48 bytes), every composition for streams <= 12 bytes, random splits with short reads, and idle gaps longer than the read timeout placed at packet boundaries and right after a packet code; each replay is its own simulated run with its own goroutine schedule; oracle = transcript (callback trace with values, error class, outcome of the trailing Ping) equal to the reference; evaluations = replays; distinct = distinct (script, segmentation) digests; non-trivial = replays with more than one segment",
		Run:  runC08,
	})
}

type c08Variant struct {
	name  string
	sizes []int
	gaps  map[int]time.Duration
	short int
}

func errClass(err error) string {
	if err == nil {
		return "nil"
	}
	if ex, ok := ch.AsException(err); ok {
		return fmt.Sprintf("exception %d %q %q next=%d", ex.Code, ex.Name, ex.Message, len(ex.Next))
	}
	s := err.Error()
	// transport detail that may legitimately depend on timing is not part of the class
	return "error: " + s
}

// c08OnlySenderFlushError: the two transcripts are the same but for the
// returned error, and one of the two is the sender's flush failing on a
// connection that had been closed already.
func c08OnlySenderFlushError(a, b string) bool {
	la, lb := strings.Split(a, "\n"), strings.Split(b, "\n")
	if len(la) != len(lb) {
		return false
	}
	diff := 0
	for i := range la {
		if la[i] == lb[i] {
			continue
		}
		diff++
		if !strings.HasPrefix(la[i], "return: ") || !strings.HasPrefix(lb[i], "return: ") {
			return false
		}
		isFlush := func(s string) bool {
			return strings.HasPrefix(s, "return: error: flush: set write deadline:") && strings.HasSuffix(s, "use of closed network connection")
		}
		if isFlush(la[i]) == isFlush(lb[i]) {
			return false
		}
	}
	return diff == 1
}

func runC08(t *testing.T, c *choice.Stream, r *Result, opt RunOpt) {
	scSeed := uint64(c.Draw("scenario.seed", 1<<31-1))
	type built struct {
		cf     *Conf
		rs     *respScenario
		stream []byte
		bounds []int // offsets of packet starts within stream
	}
	// the caller has seen enough at the first block: its callback cancels the
	// query and returns nil. How many more callbacks run must not depend on how
	// much of the response had already arrived
	cancelInCb := false
	build := func() *built {
		sc := choice.New(scSeed)
		cf := DrawConf(sc)
		cf.ReadTimeout = []time.Duration{0, 10 * time.Millisecond, time.Second, ch.NoTimeout}[sc.Draw("rt", 4)]
		cf.HandshakeTimeout = []time.Duration{0, 300 * time.Millisecond, 2 * time.Second}[sc.Draw("hs.timeout", 3)]
		rs := drawResponse(sc, cf, 6)
		cancelInCb = sc.Bool("cancel.in.callback", 1, 6)
		b := &built{cf: cf, rs: rs}
		for _, p := range rs.packets {
			b.bounds = append(b.bounds, len(b.stream))
			b.stream = append(b.stream, p.Encode(cf)...)
		}
		b.bounds = append(b.bounds, len(b.stream))
		b.stream = append(b.stream, (&SPacket{Kind: "pong"}).Encode(cf)...)
		return b
	}
	ref := build()
	n := len(ref.stream)
	_, wantErr, _ := ref.rs.expected()
	// ---- the delivery schedules of this case ----
	vs := []c08Variant{{name: "at-once", sizes: []int{n}}}
	ones := make([]int, n)
	for i := range ones {
		ones[i] = 1
	}
	if n <= 3000 {
		vs = append(vs, c08Variant{name: "bytewise", sizes: ones})
	}
	if n <= 48 || opt.Tier == "thorough" && n <= 400 {
		for k := 1; k < n; k++ {
			vs = append(vs, c08Variant{name: fmt.Sprintf("two@%d", k), sizes: []int{k, n - k}})
		}
	} else {
		for i := 0; i < 4; i++ {
			k := 1 + c.Draw("two.k", n-1)
			vs = append(vs, c08Variant{name: fmt.Sprintf("two@%d", k), sizes: []int{k, n - k}})
		}
	}
	if n <= 12 {
		for mask := 0; mask < 1<<(n-1); mask++ {
			var sizes []int
			cur := 1
			for i := 0; i < n-1; i++ {
				if mask>>i&1 == 1 {
					sizes = append(sizes, cur)
					cur = 1
				} else {
					cur++
				}
			}
			sizes = append(sizes, cur)
			vs = append(vs, c08Variant{name: fmt.Sprintf("comp%x", mask), sizes: sizes})
		}
		r.Probe("all_compositions")
	}
	for i := 0; i < 3; i++ {
		var sizes []int
		left := n
		for left > 0 {
			mx := c.Pick("rand.max", 2, 7, 64, 4096)
			if n/mx > 1500 {
				mx = n/1500 + 1 // keep the number of segments of a big stream bounded
			}
			k := 1 + c.Draw("rand.k", min(left, mx))
			sizes = append(sizes, k)
			left -= k
		}
		vs = append(vs, c08Variant{name: "random", sizes: sizes, short: c.Pick("short", 0, 200, 600)})
	}
	// idle gaps longer than the read timeout, between packets and right after a packet code
	rt := ref.cf.EffReadTimeout()
	for i := 0; i < 2; i++ {
		var sizes []int
		gaps := map[int]time.Duration{}
		prev := 0
		for bi, b := range ref.bounds {
			cuts := []int{b}
			if c.Bool("gap.aftercode", 1, 3) && b+1 < n {
				cuts = append(cuts, b+1)
			}
			for _, cut := range cuts {
				if cut > prev && cut < n {
					sizes = append(sizes, cut-prev)
					prev = cut
					// no gap in front of the trailing Pong: a Ping is not a running
					// query and its single read timeout is not retried
					if cut < ref.bounds[len(ref.bounds)-1] && (c.Bool("gap.here", 1, 2) || bi == 0) {
						gaps[len(sizes)-1] = rt + time.Duration(1+c.Draw("gap.extra", 3))*rt/2
					}
				}
			}
		}
		sizes = append(sizes, n-prev)
		vs = append(vs, c08Variant{name: "gaps", sizes: sizes, gaps: gaps})
	}

	if n > 400000 {
		// very large responses: the reference, one two-piece split and one coarse random split
		vs = []c08Variant{vs[0], {name: fmt.Sprintf("two@%d", n/3), sizes: []int{n / 3, n - n/3}}, {name: "random", sizes: []int{n / 7, n / 5, n / 3, n - n/7 - n/5 - n/3}}}
	}
	var refTranscript string
	digest := fnv.New64a()
	total := &Result{}
	for vi, v := range vs {
		b := build()
		sub := &Result{Prop: r.Prop, Index: r.Index, Seed: r.Seed}
		var transcript string
		Bubble(t, c, sub, opt, func(e *Env) func() {
			nop := func(*refproto.ClientPacket) []byte { return nil }
			script := b.cf.HandshakeSteps()
			script = append(script, simnet.Step{Label: "query", OnPacket: nop}, simnet.Step{Label: "ext-end", OnPacket: nop},
				simnet.Step{Label: "response", Send: b.stream})
			e.Sim.DrawStrategy()
			e.Sim.StallProb = 0
			e.Sim.SetFair()
			e.Sim.MaxSteps = 4000000
			e.W.DeliverMode = 0
			srv := simnet.NewServer(b.cf.ServerRev, script)
			conn := e.W.NewConn(srv)
			return func() {
				ctx := context.Background()
				cl, err := ch.Connect(ctx, conn, b.cf.Options())
				if err != nil {
					sub.Harness("fault-free handshake failed: %v", err)
					return
				}
				e.W.SetPlan(v.sizes, v.gaps)
				e.W.ShortReads = v.short
				if v.short > 0 {
					conn.EmptyReads = 60 // ... and empty reads (zero-length segments)
				}
				qctx := ctx
				if b.rs.farDeadline > 0 {
					// a deadline far beyond the whole exchange must change nothing
					var cancel context.CancelFunc
					qctx, cancel = context.WithTimeout(ctx, b.rs.farDeadline)
					defer cancel()
				}
				if cancelInCb {
					var cancel context.CancelFunc
					qctx, cancel = context.WithCancel(qctx)
					defer cancel()
					b.rs.rec.OnCall = func(name string, k int) {
						if name == "result" && k == 1 {
							cancel()
							sub.Fire("callback_cancels_its_query")
						}
					}
				}
				derr := cl.Do(qctx, b.rs.query)
				if cancelInCb && derr != nil && errors.Is(derr, context.Canceled) {
					derr = context.Canceled // who noticed first is a matter of timing, not of the class
				}
				var sb strings.Builder
				for _, ev := range b.rs.rec.Events {
					sb.WriteString(ev)
					sb.WriteByte('\n')
				}
				sb.WriteString("return: " + errClass(derr) + "\n")
				if !cl.IsClosed() {
					// pins the number of bytes consumed: the Pong is already in the client's buffer
					perr := cl.Ping(ctx)
					sb.WriteString("ping: " + errClass(perr) + "\n")
				} else {
					sb.WriteString("ping: closed\n")
				}
				transcript = sb.String()
			}
		})
		total.Steps += sub.Steps
		total.Switches += sub.Switches
		total.SimMs += sub.SimMs
		for k, x := range sub.Fired {
			for i := 0; i < x; i++ {
				r.Fire(k)
			}
		}
		fmt.Fprintf(digest, "%s|%v|%s;", sub.Digest, v.sizes, v.name)
		if sub.Outcome == "harness" || sub.Outcome == "violation" {
			*r = *mergeSub(r, sub)
			return
		}
		if vi == 0 {
			refTranscript = transcript
			// the reference itself must agree with the model of C03
			continue
		}
		if len(v.gaps) > 0 {
			r.Fire("gap")
		}
		if transcript != refTranscript {
			if c08OnlySenderFlushError(refTranscript, transcript) {
				// one specific difference, listed in known_findings.json: the receive
				// side failed (a callback's error, no OnResult), the connection was
				// given up, and the sender's last (empty) flush met the closed
				// connection and had its error recorded first
				r.Violate("segmentation-dependent", "return:sender-flush-error-wins-after-receive-failure", "delivery %q: the receive side failed and the call returned the sender's flush error instead of that failure\n--- at once:\n%.600s\n--- %s:\n%.600s", v.name, refTranscript, v.name, transcript)
				break
			}
			r.Violate("segmentation-dependent", "diff:"+strings.SplitN(v.name, "@", 2)[0]+":"+wantErr, "delivery %q (%d segments, %d gaps) gives a different transcript than delivery at once\n--- at once:\n%.1200s\n--- %s:\n%.1200s", v.name, len(v.sizes), len(v.gaps), refTranscript, v.name, transcript)
			break
		}
	}
	r.Steps, r.Switches, r.SimMs = total.Steps, total.Switches, total.SimMs
	r.Digest = fmt.Sprintf("%016x", digest.Sum64())
	r.NonTriv = len(vs) > 1
	if r.Probes == nil {
		r.Probes = map[string]int{}
	}
	r.Probes["replays"] += len(vs)
	r.Evals = len(vs)
	r.Cell = fmt.Sprintf("comp%d/%s", ref.cf.Comp, wantErr)
	var kinds []string
	for _, p := range ref.rs.packets {
		kinds = append(kinds, p.Kind)
	}
	r.Sample = map[string]any{"stream_bytes": n, "packets": kinds, "replays": len(vs), "compression": ref.cf.Comp.String(), "read_timeout": rt.String(), "client_rev": ref.cf.ClientRev, "server_rev": ref.cf.ServerRev}
}

func mergeSub(r, sub *Result) *Result {
	sub.Fired, sub.Probes = r.Fired, r.Probes
	return sub
}
