package props

import (
	"context"
	"errors"
	"fmt"
	"net"
	"os"
	"reflect"
	"testing"
	"time"

	"github.com/ClickHouse/ch-go"
	"github.com/ClickHouse/ch-go/proto"

	"chgosim/choice"
	"chgosim/refproto"
	"chgosim/simnet"
)

// respScenario is a generated server response with the callbacks that observe it.
type respScenario struct {
	cf          *Conf
	cols        []ColSpec
	packets     []*SPacket
	auto        bool          // Results.Auto() instead of typed targets
	farDeadline time.Duration // > 0: the query context carries a deadline far beyond the whole exchange
	failName    string        // callback that returns an error at its failN-th invocation
	failN       int
	noTarget    bool            // Query.Result is nil: only zero-row blocks may arrive
	have        map[string]bool // which callbacks are present
	rec         *Recorder
	res         proto.Results
	query       ch.Query
}

// drawResponse draws a response script from the grammar of C03.
func drawResponse(c *choice.Stream, cf *Conf, maxPackets int) *respScenario {
	rs := &respScenario{cf: cf, rec: &Recorder{}, have: map[string]bool{}}
	rs.cols = DrawCols(c, "res", 3, 2)
	rs.auto = c.Bool("res.auto", 1, 3)
	for _, cs := range rs.cols {
		var a proto.ColAuto
		if a.Infer(proto.ColumnType(cs.Type)) != nil {
			rs.auto = false // not every constructible type is inferable; inference itself is C19's subject
		}
	}
	for _, cb := range []string{"result", "progress", "profile", "events", "event", "logs", "log"} {
		rs.have[cb] = c.Bool("have."+cb, 3, 4)
	}
	// a query that binds no result at all (DDL, or a caller interested only in
	// telemetry): the server still sends header blocks, which must be skipped
	rs.noTarget = c.Bool("res.none", 1, 10)
	if rs.noTarget {
		rs.have["result"] = false
	}
	n := c.Range("resp.n", 0, maxPackets)
	nonEmpty := 0
	for i := 0; i < n; i++ {
		switch c.Weighted("resp.kind", 6, 1, 3) {
		case 0:
			rows := 0
			if !c.Bool("resp.header", 1, 4) {
				rows = c.Range("resp.rows", 1, 5)
				if c.Bool("resp.bigrows", 1, 30) {
					rows = c.Range("resp.rows.big", 200, 3000)
				}
			}
			if !rs.have["result"] {
				// the statement fixes two cases without OnResult: zero-row blocks
				// only before the single non-empty one, or two or more non-empty ones
				if rows == 0 && nonEmpty > 0 {
					rows = 1
				}
			}
			if rs.noTarget {
				rows = 0
			}
			if rows > 0 {
				nonEmpty++
			}
			rs.packets = append(rs.packets, &SPacket{Kind: "data", Block: DrawBlock(c, rs.cols, rows)})
		case 1:
			if rs.noTarget {
				rs.packets = append(rs.packets, &SPacket{Kind: "totals", Block: DrawBlock(c, rs.cols, 0)})
				break
			}
			nonEmpty++
			rs.packets = append(rs.packets, &SPacket{Kind: "totals", Block: DrawBlock(c, rs.cols, 1)})
		default:
			rs.packets = append(rs.packets, drawTelemetry(c, cf))
		}
	}
	if c.Bool("resp.exception", 1, 4) {
		rs.packets = append(rs.packets, &SPacket{Kind: "exception", Exc: DrawExceptionChain(c)})
	} else {
		if c.Bool("resp.blank", 1, 4) {
			// the empty end marker some servers send before EndOfStream
			rs.packets = append(rs.packets, &SPacket{Kind: "data", Block: &refproto.Block{BucketNum: -1}})
		}
		rs.packets = append(rs.packets, &SPacket{Kind: "eos"})
	}
	// the server may be quiet for a while before a packet (a long-running stage
	// of the query): shorter or longer than the client's read timeout
	if len(rs.packets) > 0 && c.Bool("resp.pause", 1, 4) {
		rt := cf.EffReadTimeout()
		rs.packets[c.Draw("resp.pause.at", len(rs.packets))].Delay = []time.Duration{rt / 2, rt + rt/2, 4 * rt}[c.Draw("resp.pause.len", 3)]
	}
	rs.farDeadline = time.Duration(c.Pick("ctx.deadline.min", 0, 0, 30, 600)) * time.Minute
	// one of the installed callbacks may fail at its n-th invocation
	if c.Bool("cb.fail", 1, 4) {
		var present []string
		for _, cb := range []string{"result", "progress", "profile", "events", "event", "logs", "log"} {
			if rs.have[cb] {
				present = append(present, cb)
			}
		}
		if len(present) > 0 {
			rs.failName = present[c.Draw("cb.fail.name", len(present))]
			rs.failN = 1 + c.Draw("cb.fail.n", 3)
			rs.rec.FailAt = map[string]int{rs.failName: rs.failN}
			switch c.Draw("cb.fail.kind", 4) {
			case 1:
				// the callback forwards rows to a socket of its own and returns its timeout
				rs.rec.FailWith = fmt.Errorf("forward rows: %w", &net.OpError{Op: "write", Net: "tcp", Err: os.ErrDeadlineExceeded})
			case 2:
				// ... or the exception of a query it ran elsewhere
				rs.rec.FailWith = fmt.Errorf("lookup in callback: %w", &ch.Exception{Code: 60, Name: "DB::Exception", Message: "DB::Exception: Table default.other does not exist"})
			case 3:
				rs.rec.FailWith = fmt.Errorf("callback gave up: %w", context.Canceled)
			}
		}
	}
	// the query
	rs.query.Body = "SELECT"
	if rs.noTarget {
		rs.query.Result = nil
	} else if rs.auto {
		rs.query.Result = rs.res.Auto()
	} else {
		res, _ := ResultTargets(rs.cols)
		rs.res = res
		rs.query.Result = rs.res
	}
	if rs.have["result"] {
		rs.query.OnResult = rs.rec.OnResult(rs.cols, &rs.res)
	}
	if rs.have["progress"] {
		rs.query.OnProgress = rs.rec.OnProgress
	}
	if rs.have["profile"] {
		rs.query.OnProfile = rs.rec.OnProfile
	}
	if rs.have["events"] {
		rs.query.OnProfileEvents = rs.rec.OnProfileEvents
	}
	if rs.have["event"] {
		rs.query.OnProfileEvent = rs.rec.OnProfileEvent
	}
	if rs.have["logs"] {
		rs.query.OnLogs = rs.rec.OnLogs
	}
	if rs.have["log"] {
		rs.query.OnLog = rs.rec.OnLog
	}
	return rs
}

// expected computes, from the script alone, the callback trace and whether
// the call must return nil, an exception or another error.
func (rs *respScenario) expected() (events []string, wantErr string, chain []refproto.Exception) {
	rev := rs.cf.Negotiated()
	first := true
	calls := map[string]int{}
	// emit records one callback invocation; it reports true when that is the
	// invocation which fails: the call ends there with the callback's error
	emit := func(name, ev string) bool {
		events = append(events, ev)
		calls[name]++
		if name == rs.failName && calls[name] == rs.failN {
			events = append(events, "fail:"+name)
			return true
		}
		return false
	}
	for _, p := range rs.packets {
		switch p.Kind {
		case "data", "totals":
			if len(p.Block.Cols) == 0 && p.Block.Rows == 0 {
				continue
			}
			if rs.have["result"] {
				if emit("result", blockEvent("result", p.Block.Cols, p.Block.Rows)) {
					return events, "callback", nil
				}
			} else {
				if !first {
					return events, "no-onresult", nil
				}
				if p.Block.Rows > 0 {
					first = false
				}
			}
		case "progress":
			if rs.have["progress"] && emit("progress", progEvent(p.Prog, rev)) {
				return events, "callback", nil
			}
		case "profile":
			if rs.have["profile"] && emit("profile", fmt.Sprintf("profile %+v", p.Prof)) {
				return events, "callback", nil
			}
		case "events":
			if rs.have["events"] {
				s := "events"
				for _, e := range p.Events {
					s += " " + evStr(e)
				}
				if emit("events", s) {
					return events, "callback", nil
				}
			}
			if rs.have["event"] {
				for _, e := range p.Events {
					if emit("event", "event "+evStr(e)) {
						return events, "callback", nil
					}
				}
			}
		case "log":
			strip := func(l LogRow) LogRow { l.Micro = 0; return l }
			if rs.have["logs"] {
				s := "logs"
				for _, l := range p.Logs {
					s += fmt.Sprintf(" %+v", strip(l))
				}
				if emit("logs", s) {
					return events, "callback", nil
				}
			}
			if rs.have["log"] {
				for _, l := range p.Logs {
					if emit("log", fmt.Sprintf("log %+v", strip(l))) {
						return events, "callback", nil
					}
				}
			}
		case "exception":
			return events, "exception", p.Exc
		case "eos":
			return events, "", nil
		}
	}
	return events, "", nil
}

// checkOutcome compares what happened with the model.
func (rs *respScenario) checkOutcome(r *Result, err error, tag string) {
	want, wantErr, chain := rs.expected()
	got := rs.rec.Events
	for _, e := range got {
		if len(e) > 8 && e[:8] == "harness:" {
			r.Harness("%s", e)
			return
		}
	}
	if !reflect.DeepEqual(got, want) {
		i := 0
		for i < len(got) && i < len(want) && got[i] == want[i] {
			i++
		}
		g, w := "<none>", "<none>"
		if i < len(got) {
			g = got[i]
		}
		if i < len(want) {
			w = want[i]
		}
		r.Violate("callback-trace", "trace:"+tag, "callback trace differs from the model at event %d (got %d events, want %d)\n got: %.600s\nwant: %.600s", i, len(got), len(want), g, w)
		return
	}
	switch wantErr {
	case "":
		if err != nil {
			r.Violate("return-value", "ret:nil-expected:"+tag, "stream ended with EndOfStream and no callback failed, but Do returned %v", err)
		}
	case "callback":
		if err == nil {
			r.Violate("return-value", "ret:callback-error-lost:"+tag, "callback %s failed at its invocation %d, but Do returned nil", rs.failName, rs.failN)
		} else if want := rs.failErr(); !errors.Is(err, want) {
			r.Violate("return-value", "ret:callback-error-replaced:"+tag, "callback %s failed at its invocation %d, but Do returned %v, from which the callback's error cannot be recovered", rs.failName, rs.failN, err)
		}
	case "no-onresult":
		if err == nil {
			r.Violate("return-value", "ret:no-onresult:"+tag, "two non-empty blocks without OnResult, but Do returned nil")
		}
	case "exception":
		if err == nil {
			r.Violate("return-value", "ret:exception-lost:"+tag, "server exception but Do returned nil")
			return
		}
		ex, ok := ch.AsException(err)
		if !ok {
			r.Violate("exception-chain", "exc:not-recoverable:"+tag, "server exception not recoverable from %v", err)
			return
		}
		top := chain[0]
		if int32(ex.Code) != top.Code || ex.Name != top.Name || ex.Message != top.Message || ex.Stack != top.Stack {
			r.Violate("exception-chain", "exc:top:"+tag, "top exception %+v, sent %+v", *ex, top)
			return
		}
		if len(ex.Next) != len(chain)-1 {
			r.Violate("exception-chain", "exc:depth:"+tag, "exception chain depth %d, sent %d", len(ex.Next)+1, len(chain))
			return
		}
		for i, n := range ex.Next {
			s := chain[i+1]
			if int32(n.Code) != s.Code || n.Name != s.Name || n.Message != s.Message || n.Stack != s.Stack {
				r.Violate("exception-chain", "exc:nested:"+tag, "nested exception %d is %+v, sent %+v", i, n, s)
				return
			}
		}
		for _, e := range chain {
			if !errors.Is(err, proto.Error(e.Code)) {
				r.Violate("exception-chain", "exc:is:"+tag, "errors.Is(err, %d) is false for a code in the chain", e.Code)
				return
			}
		}
		if !ch.IsErr(err, proto.Error(top.Code)) {
			r.Violate("exception-chain", "exc:iserr:"+tag, "ch.IsErr false for the top code %d", top.Code)
		}
	}
}

// selectScript is the server script for one query answered by packets.
func selectScript(cf *Conf, packets []*SPacket) []simnet.Step {
	var s []simnet.Step
	nop := func(*refproto.ClientPacket) []byte { return nil }
	s = append(s, simnet.Step{Label: "query", OnPacket: nop}, simnet.Step{Label: "ext-end", OnPacket: nop})
	for _, p := range packets {
		s = append(s, simnet.Step{Label: p.Kind, Send: p.Encode(cf), Delay: p.Delay})
	}
	return s
}

func init() {
	Register(&Prop{
		ID: "C03", Engine: "A", Quick: 6000, Thorough: 300000, Level: "exploration",
		Rule: "each run = handshake + 1..2 queries, each answered by a generated packet script (Data/Totals of a drawn schema incl. zero-row header blocks, Progress, Profile, ProfileEvents, Log, TableColumns, then EndOfStream or an exception chain) with each callback independently present or absent, typed or Auto targets or no result bound at all (header blocks only), drawn revisions and compression, delivery segmentation and goroutine schedule; no faults; oracle = expected callback trace and return value computed from the script by a model; distinct = schedule digests; non-trivial = at least one context switch and one result or telemetry event",
		Run:  runC03,
	})
}

func runC03(t *testing.T, c *choice.Stream, r *Result, opt RunOpt) {
	enumAsInt = c.Bool("target.enum-as-int", 1, 3)
	defer func() { enumAsInt = false }()
	Bubble(t, c, r, opt, func(e *Env) func() {
		cf := DrawConf(c)
		cf.HandshakeTimeout = []time.Duration{0, 0, 300 * time.Millisecond, 2 * time.Second}[c.Draw("hs.timeout", 4)]
		nq := c.Range("queries", 1, 2)
		maxP := 8
		if opt.Tier == "thorough" {
			maxP = c.Pick("maxp", 8, 8, 20, 40)
		}
		var scs []*respScenario
		script := cf.HandshakeSteps()
		for i := 0; i < nq; i++ {
			rs := drawResponse(c, cf, maxP)
			scs = append(scs, rs)
			script = append(script, selectScript(cf, rs.packets)...)
			if _, we, _ := rs.expected(); we == "no-onresult" || we == "callback" {
				// the client closes the connection on this error; nothing follows
				break
			}
		}
		// a Ping after the queries, answered by Pong, by an exception chain, or by a packet a Ping does not expect
		pingAnswer := []string{"none", "pong", "exception", "unexpected"}[c.Weighted("ping", 2, 3, 2, 1)]
		var pingChain []refproto.Exception
		lastFails := false
		if _, we, _ := scs[len(scs)-1].expected(); we == "no-onresult" || we == "callback" {
			lastFails = true
		}
		if lastFails {
			pingAnswer = "none"
		}
		nop := func(*refproto.ClientPacket) []byte { return nil }
		switch pingAnswer {
		case "pong":
			if c.Bool("pong.eager", 1, 3) {
				// a server that answers the probe it knows is coming before it has read it:
				// the Pong travels right behind the end of the query's response, possibly
				// in the same segment, and must still be there when the client asks
				script = append(script, simnet.Step{Label: "pong", Send: (&SPacket{Kind: "pong"}).Encode(cf)}, simnet.Step{Label: "ping", OnPacket: nop},
					simnet.Step{Label: "ping", OnPacket: nop}, simnet.Step{Label: "pong", Send: (&SPacket{Kind: "pong"}).Encode(cf)})
				break
			}
			script = append(script, simnet.Step{Label: "ping", OnPacket: nop}, simnet.Step{Label: "pong", Send: (&SPacket{Kind: "pong"}).Encode(cf)},
				simnet.Step{Label: "ping", OnPacket: nop}, simnet.Step{Label: "pong", Send: (&SPacket{Kind: "pong"}).Encode(cf)})
		case "exception":
			pingChain = DrawExceptionChain(c)
			script = append(script, simnet.Step{Label: "ping", OnPacket: nop}, simnet.Step{Label: "exception", Send: (&SPacket{Kind: "exception", Exc: pingChain}).Encode(cf)},
				simnet.Step{Label: "ping", OnPacket: nop}, simnet.Step{Label: "pong", Send: (&SPacket{Kind: "pong"}).Encode(cf)})
		case "unexpected":
			script = append(script, simnet.Step{Label: "ping", OnPacket: nop}, simnet.Step{Label: "eos", Send: (&SPacket{Kind: "eos"}).Encode(cf)})
		}
		e.Sim.DrawStrategy()
		e.Sim.StallProb = 0      // fault-free configuration: no simulator-made delays
		e.Sim.MaxSteps = 4000000 // a deep exception chain costs a thousand decisions each time the error tree is walked
		e.W.DeliverMode = c.Weighted("deliver", 3, 1, 3)
		e.W.ChunkMax = c.Pick("chunkmax", 3, 16, 64, 1024)
		e.W.ShortReads = c.Pick("shortreads", 0, 0, 100)
		srv := simnet.NewServer(cf.ServerRev, script)
		conn := e.W.NewConn(srv)
		HangJudge(e, r, conn, srv, cf.ServerRev)
		conn.EmptyReads = c.Pick("emptyreads", 0, 0, 0, 60) // a transport may hand over nothing at all now and then
		r.Cell = fmt.Sprintf("rev%d/comp%d/auto%v", cf.Negotiated(), cf.Comp, scs[0].auto)
		var kinds [][]string
		for _, rs := range scs {
			var k []string
			for _, p := range rs.packets {
				k = append(k, p.Kind)
			}
			kinds = append(kinds, k)
		}
		r.Sample = map[string]any{"client_rev": cf.ClientRev, "server_rev": cf.ServerRev, "compression": cf.Comp.String(), "cols": colNames(scs[0].cols), "scripts": kinds, "callbacks": scs[0].have, "auto": scs[0].auto}
		return func() {
			ctx := context.Background()
			cl, err := ch.Connect(ctx, conn, cf.Options())
			if err != nil {
				r.Violate("handshake", "handshake", "fault-free handshake failed: %v (server parse error: %v)", err, srv.Parser.Err)
				return
			}
			clean := true
			for i, rs := range scs {
				qctx := ctx
				if rs.farDeadline > 0 {
					var cancel context.CancelFunc
					qctx, cancel = context.WithTimeout(ctx, rs.farDeadline)
					defer cancel()
				}
				derr := cl.Do(qctx, rs.query)
				if derr != nil && !ch.IsException(derr) {
					clean = false // the client cancels and closes; what it writes then is C10's subject
				}
				rs.checkOutcome(r, derr, fmt.Sprintf("q%d", i))
				if len(rs.rec.Events) > 0 {
					r.NonTriv = true
				}
				if derr != nil && cl.IsClosed() {
					break
				}
			}
			if clean && !cl.IsClosed() {
				switch pingAnswer {
				case "pong":
					for i := 0; i < 2; i++ {
						if err := cl.Ping(ctx); err != nil {
							r.Violate("ping", "ping:pong", "Ping %d answered by Pong returned %v", i, err)
						}
					}
				case "exception":
					err := cl.Ping(ctx)
					ex, ok := ch.AsException(err)
					if !ok || int32(ex.Code) != pingChain[0].Code || ex.Message != pingChain[0].Message || len(ex.Next) != len(pingChain)-1 {
						r.Violate("ping", "ping:exception", "Ping answered by the exception chain %+v returned %v", pingChain, err)
					} else if err := cl.Ping(ctx); err != nil {
						r.Violate("ping", "ping:after-exception", "the Ping after one that was answered by an exception returned %v", err)
					}
				case "unexpected":
					if err := cl.Ping(ctx); err == nil {
						r.Violate("ping", "ping:unexpected", "Ping answered by EndOfStream returned nil")
					}
				}
				if pingAnswer != "none" {
					r.Fire("ping_" + pingAnswer)
				}
			}
			if clean && srv.Parser.Err != nil {
				r.Violate("client-stream", "client-stream", "the reference server could not parse the client stream: %v", srv.Parser.Err)
			}
		}
	})
}

// failErr is the error the failing callback returns.
func (rs *respScenario) failErr() error {
	if rs.rec.FailWith != nil {
		return errors.Unwrap(rs.rec.FailWith)
	}
	return ErrInjected
}
