package props

import (
	"context"
	"fmt"
	"hash/fnv"
	"runtime/debug"
	"testing"

	"chgosim/refproto"
	"chgosim/simnet"
	"github.com/ClickHouse/ch-go"

	"github.com/ClickHouse/ch-go/compress"
	"github.com/ClickHouse/ch-go/proto"
	"go.opentelemetry.io/otel/trace"

	"chgosim/choice"
	"chgosim/gen"
	"chgosim/simio"
)

func init() {
	Register(&Prop{
		ID: "C07", Engine: "B", AltEvery: 4, Quick: 4000, Thorough: 60000, Level: "fault_enumeration",
		Rule: "each case = one stream produced by the library's own encoders (a block of drawn columns and rows, plain or in one frame of each compression method; a single column; or a protocol message: ClientHello, ServerHello, Query with ClientInfo, Progress, Profile, Exception chain, TableColumns, at a drawn revision); the crash point is the cut position: every k in 0..len-1 for streams up to 4 KiB (for longer ones the first and last 128 positions and 600 drawn ones), each with a drawn end flavour ((0,EOF), (n>0,EOF), reset, unexpected EOF) and source segmentation; decoding goes through typed targets and, where the types are inferable, through automatic inference; oracle = every proper prefix fails with an error and nothing panics; evaluations = prefix decodes; distinct = distinct (stream, cut) pairs; non-trivial = all of them (every one is a truncation)",
		Run:  runC07,
	})
}

type c07Decoder func(src *simio.FaultyReader) error

func safeDecode(d c07Decoder, src *simio.FaultyReader) (err error, panicked string) {
	defer func() {
		if p := recover(); p != nil {
			panicked = fmt.Sprintf("%v\n%s", p, debug.Stack())
		}
	}()
	return d(src), ""
}

// runC07Client is the engine-A part: the server's response stream to a real
// client ends (FIN or RST) after byte k; the query must fail and the callbacks
// that ran must be a prefix of what the complete stream delivers, i.e. no
// partially decoded block or packet is ever handed to the caller.
func runC07Client(t *testing.T, c *choice.Stream, r *Result, opt RunOpt) {
	Bubble(t, c, r, opt, func(e *Env) func() {
		cf := DrawConf(c)
		rs := drawResponse(c, cf, 6)
		var stream []byte
		var bounds []int
		for _, p := range rs.packets {
			stream = append(stream, p.Encode(cf)...)
			bounds = append(bounds, len(stream))
		}
		k := c.Draw("cut.k", len(stream))
		rst := c.Bool("cut.rst", 1, 2)
		nop := func(*refproto.ClientPacket) []byte { return nil }
		script := cf.HandshakeSteps()
		script = append(script, simnet.Step{Label: "query", OnPacket: nop}, simnet.Step{Label: "ext-end", OnPacket: nop},
			simnet.Step{Label: "response-prefix", Send: stream[:k], Fin: !rst, Rst: rst})
		e.Sim.DrawStrategy()
		e.Sim.StallProb = 0
		e.Sim.MaxSteps = 400000
		e.W.DeliverMode = c.Weighted("deliver", 3, 1, 3)
		srv := simnet.NewServer(cf.ServerRev, script)
		conn := e.W.NewConn(srv)
		want, _, _ := rs.expected()
		// events that complete packets before the cut would deliver
		whole := 0
		for whole < len(bounds) && bounds[whole] <= k {
			whole++
		}
		r.Cell = "client-cut"
		r.NonTriv = true
		r.Fire(map[bool]string{true: "cut_rst", false: "cut_fin"}[rst])
		r.Sample = map[string]any{"kind": "client-cut", "stream_bytes": len(stream), "cut_at": k, "whole_packets_before_cut": whole, "packets": len(rs.packets), "compression": cf.Comp.String(), "rst": rst}
		return func() {
			cl, err := ch.Connect(context.Background(), conn, cf.Options())
			if err != nil {
				r.Harness("fault-free handshake failed: %v", err)
				return
			}
			derr := cl.Do(context.Background(), rs.query)
			if derr == nil {
				r.Violate("truncation-accepted", "accepted:client", "the response was cut after %d of %d bytes (%d whole packets of %d) and Do returned nil", k, len(stream), whole, len(rs.packets))
				return
			}
			got := rs.rec.Events
			if len(got) > len(want) {
				r.Violate("partial-data-delivered", "extra-events:client", "the cut response produced %d callback events, the complete one only %d", len(got), len(want))
				return
			}
			for i := range got {
				if got[i] != want[i] {
					r.Violate("partial-data-delivered", "partial-event:client", "response cut after %d of %d bytes: callback event %d differs from what the complete stream delivers\n got: %.500s\nwant: %.500s", k, len(stream), i, got[i], want[i])
					return
				}
			}
		}
	})
}

func runC07(t *testing.T, c *choice.Stream, r *Result, opt RunOpt) {
	if c.Bool("family.client", 1, 6) {
		runC07Client(t, c, r, opt)
		return
	}
	rev := revMenu()[c.Draw("rev", len(revMenu()))]
	if c.Bool("rev.latest", 1, 2) {
		rev = proto.Version
	}
	kind := []string{"block", "block-auto", "column", "message", "block-skip"}[c.Weighted("kind", 5, 3, 2, 3, 1)]
	var stream []byte
	var dec c07Decoder
	desc := map[string]any{"kind": kind, "revision": rev}
	method := ""
	switch kind {
	case "block-skip":
		// a header block (columns, no rows) read by a caller that bound no result:
		// the names and types are skipped, and a cut inside them must still be seen
		cols := DrawCols(c, "cols", 4, 2)
		var w refproto.W
		if err := refproto.EncodeBlock(&w, rev, DrawBlock(c, cols, 0)); err != nil {
			panic(err)
		}
		stream = w.B
		desc["cols"] = colNames(cols)
		info := c.Bool("skip.colinfo", 1, 2)
		desc["target"] = map[bool]string{false: "nil", true: "ColInfoInput"}[info]
		dec = func(src *simio.FaultyReader) error {
			var blk proto.Block
			if info {
				// what Do binds to learn the columns of an INSERT
				var ci proto.ColInfoInput
				return blk.DecodeBlock(proto.NewReader(src), rev, &ci)
			}
			return blk.DecodeBlock(proto.NewReader(src), rev, nil)
		}
	case "block", "block-auto":
		cols := DrawCols(c, "cols", 3, 2)
		rows := gen.DrawRows(c, "rows")
		for _, cs := range cols {
			if cs.RT.Kind == refproto.KLowCard && c.Bool("lc.wide", 1, 2) {
				rows = 260 + c.Draw("lc.rows", 400) // enough rows for a dictionary with keys wider than one byte
			}
		}
		if kind == "block-auto" {
			for _, cs := range cols {
				// inference must accept the type string the library's own column reports
				// (e.g. ColMap reports "Map(String, String)", which ColAuto does not know)
				col, err := gen.NewCol(cs.Type)
				var a proto.ColAuto
				if err != nil || a.Infer(col.Type()) != nil {
					kind = "block"
				}
			}
		}
		var input []proto.InputColumn
		r0 := c.Sub("vals")
		for _, cs := range cols {
			col, err := gen.NewCol(cs.Type)
			if err != nil {
				panic(err)
			}
			if err := gen.Fill(col, cs.RT, gen.Values(r0, cs.RT, rows)); err != nil {
				panic(err)
			}
			input = append(input, proto.InputColumn{Name: cs.Name, Data: col})
		}
		var buf proto.Buffer
		b := proto.Block{Columns: len(cols), Rows: rows, Info: proto.BlockInfo{BucketNum: -1}}
		if err := b.EncodeBlock(&buf, rev, input); err != nil {
			r.Harness("EncodeBlock: %v", err)
			return
		}
		stream = buf.Buf
		if c.Bool("server.encoder", 1, 3) {
			// the same kind of block as a server writes it: the independent encoder,
			// with the server's spelling of the types (Decimal(P, S), time zones)
			var w refproto.W
			if err := refproto.EncodeBlock(&w, rev, DrawBlock(c, cols, rows)); err != nil {
				panic(err)
			}
			stream = w.B
			desc["encoder"] = "reference"
		}
		compressed := false
		if m := c.Draw("compress", 5); m > 0 {
			cm := []compress.Method{compress.None, compress.LZ4, compress.LZ4HC, compress.ZSTD}[m-1]
			w := compress.NewWriter(0, cm)
			if err := w.Compress(stream); err != nil {
				r.Harness("Compress: %v", err)
				return
			}
			stream = append([]byte(nil), w.Data...)
			compressed = true
			method = cm.String()
		}
		desc["cols"], desc["rows"], desc["compression"] = colNames(cols), rows, method
		typed, _ := ResultTargets(cols)
		auto := kind == "block-auto"
		if !auto && c.Bool("target.raw", 1, 4) {
			// fixed-width columns bound to the pass-through target (proto.ColRaw:
			// bytes in, bytes out, for copying from one source to another)
			for i, cs := range cols {
				var b proto.Buffer
				input[i].Data.EncodeColumn(&b)
				if cs.RT.Size > 0 && rows > 0 && len(b.Buf) == rows*cs.RT.Size {
					typed[i].Data = &proto.ColRaw{T: input[i].Data.Type(), Size: cs.RT.Size}
					desc["raw_target"] = true
				}
			}
		}
		// the same block twice on one reader (a constant result sent in equal
		// blocks): whatever the reader keeps from the first must not vouch for
		// a second one that is cut short
		twice := len(stream) < 1<<16 && c.Bool("block.twice", 1, 4)
		if twice {
			stream = append(append([]byte(nil), stream...), stream...)
			desc["twice"] = true
		}
		dec = func(src *simio.FaultyReader) error {
			rd := proto.NewReader(src)
			if compressed {
				rd.EnableCompression()
			}
			n := 1
			if twice {
				n = 2
			}
			for i := 0; i < n; i++ {
				var blk proto.Block
				var err error
				if auto {
					var res proto.Results
					err = blk.DecodeBlock(rd, rev, res.Auto())
				} else {
					err = blk.DecodeBlock(rd, rev, typed)
				}
				if err != nil {
					return err
				}
			}
			return nil
		}
	case "column":
		cs := DrawCols(c, "col", 1, 2)[0]
		rows := 1 + gen.DrawRows(c, "rows")
		if cs.RT.Kind == refproto.KLowCard && c.Bool("lc.wide", 1, 2) {
			rows = 260 + c.Draw("lc.rows", 400)
		}
		col, err := gen.NewCol(cs.Type)
		if err != nil {
			panic(err)
		}
		if err := gen.Fill(col, cs.RT, gen.Values(c.Sub("vals"), cs.RT, rows)); err != nil {
			panic(err)
		}
		if p, ok := col.(proto.Preparable); ok {
			_ = p.Prepare()
		}
		var buf proto.Buffer
		if s, ok := col.(proto.StateEncoder); ok {
			s.EncodeState(&buf)
		}
		col.EncodeColumn(&buf)
		stream = buf.Buf
		desc["col"], desc["rows"] = cs.Type, rows
		target, _ := gen.NewCol(cs.Type)
		dec = func(src *simio.FaultyReader) error {
			rd := proto.NewReader(src)
			target.Reset()
			if s, ok := target.(proto.StateDecoder); ok {
				if err := s.DecodeState(rd); err != nil {
					return err
				}
			}
			return target.DecodeColumn(rd, rows)
		}
	default:
		var buf proto.Buffer
		msg := []string{"client-hello", "server-hello", "query", "progress", "profile", "exception", "table-columns"}[c.Draw("msg", 7)]
		desc["message"] = msg
		skip := 0
		switch msg {
		case "client-hello":
			proto.ClientHello{Name: drawText(c, "n"), Major: c.Draw("maj", 300), Minor: 2, ProtocolVersion: rev, Database: drawText(c, "d"), User: drawText(c, "u"), Password: drawText(c, "p")}.Encode(&buf)
			skip = 1
			dec = func(src *simio.FaultyReader) error { var m proto.ClientHello; return m.Decode(proto.NewReader(src)) }
		case "server-hello":
			m := proto.ServerHello{Name: drawText(c, "n"), Major: 1, Minor: c.Draw("min", 300), Revision: rev, Timezone: drawText(c, "tz"), DisplayName: drawText(c, "dn"), Patch: c.Draw("patch", 70000)}
			m.EncodeAware(&buf, rev)
			skip = 1
			dec = func(src *simio.FaultyReader) error {
				var m proto.ServerHello
				return m.DecodeAware(proto.NewReader(src), rev)
			}
		case "query":
			q := proto.Query{ID: drawText(c, "id"), Body: drawText(c, "body"), Secret: drawText(c, "sec"), Stage: proto.StageComplete, Compression: proto.CompressionEnabled,
				Info: proto.ClientInfo{ProtocolVersion: rev, Major: 1, Minor: 2, Patch: 3, Interface: proto.InterfaceTCP, Query: proto.ClientQueryInitial, InitialUser: drawText(c, "iu"), InitialQueryID: drawText(c, "iq"), InitialAddress: "1.2.3.4:5", ClientName: "x", QuotaKey: drawText(c, "qk")}}
			if c.Bool("q.span", 1, 2) {
				var tid trace.TraceID
				var sid trace.SpanID
				copy(tid[:], c.Bytes("tid", 16))
				copy(sid[:], c.Bytes("sid", 8))
				tid[0], sid[0] = tid[0]|1, sid[0]|1
				q.Info.Span = trace.NewSpanContext(trace.SpanContextConfig{TraceID: tid, SpanID: sid, TraceFlags: 1})
			}
			for i := 0; i < c.Draw("q.settings", 3); i++ {
				q.Settings = append(q.Settings, proto.Setting{Key: fmt.Sprintf("k%d", i), Value: drawText(c, "sv"), Important: true})
			}
			for i := 0; i < c.Draw("q.params", 3); i++ {
				q.Parameters = append(q.Parameters, proto.Parameter{Key: fmt.Sprintf("p%d", i), Value: drawText(c, "pv")})
			}
			q.EncodeAware(&buf, rev)
			skip = 1
			dec = func(src *simio.FaultyReader) error {
				var m proto.Query
				return m.DecodeAware(proto.NewReader(src), rev)
			}
		case "progress":
			proto.Progress{Rows: uint64(c.Draw("a", 1<<30)), Bytes: 1 << 40, TotalRows: 3, WroteRows: 300, WroteBytes: 70000, ElapsedNs: 1 << 50}.EncodeAware(&buf, rev)
			dec = func(src *simio.FaultyReader) error {
				var m proto.Progress
				return m.DecodeAware(proto.NewReader(src), rev)
			}
		case "profile":
			proto.Profile{Rows: 1 << 20, Blocks: 3, Bytes: 1 << 33, AppliedLimit: true, RowsBeforeLimit: 200, CalculatedRowsBeforeLimit: true}.EncodeAware(&buf, rev)
			skip = 1
			dec = func(src *simio.FaultyReader) error {
				var m proto.Profile
				return m.DecodeAware(proto.NewReader(src), rev)
			}
		case "exception":
			n := c.Range("exc.n", 1, 3)
			for i := 0; i < n; i++ {
				e := proto.Exception{Code: proto.Error(60 + i), Name: drawText(c, "en"), Message: drawText(c, "em"), Stack: drawText(c, "es"), Nested: i+1 < n}
				e.EncodeAware(&buf, rev)
			}
			dec = func(src *simio.FaultyReader) error {
				rd := proto.NewReader(src)
				for {
					var m proto.Exception
					if err := m.DecodeAware(rd, rev); err != nil {
						return err
					}
					if !m.Nested {
						return nil
					}
				}
			}
		default:
			proto.TableColumns{First: drawText(c, "f"), Second: drawText(c, "s")}.EncodeAware(&buf, rev)
			skip = 1
			dec = func(src *simio.FaultyReader) error {
				var m proto.TableColumns
				return m.DecodeAware(proto.NewReader(src), rev)
			}
		}
		stream = buf.Buf[skip:]
	}
	n := len(stream)
	desc["stream_bytes"] = n
	r.Sample = desc
	r.Cell = kind
	if method != "" {
		r.Cell += "/" + method
	}
	// the whole stream must decode (otherwise the case says nothing about prefixes)
	if err, pn := safeDecode(dec, &simio.FaultyReader{Data: stream}); err != nil || pn != "" {
		if pn != "" {
			r.Violate("panic", "panic-on-complete:"+firstLibFrame(pn), "decoding the complete stream panicked: %.1500s", pn)
		} else {
			r.Violate("complete-stream-rejected", "complete:"+kind, "the complete stream (%v) does not decode: %v", desc, err)
		}
		return
	}
	// ---- the cut positions ----
	var cuts []int
	if n <= 4096 {
		for k := 0; k < n; k++ {
			cuts = append(cuts, k)
		}
	} else {
		seen := map[int]bool{}
		add := func(k int) {
			if k >= 0 && k < n && !seen[k] {
				seen[k] = true
				cuts = append(cuts, k)
			}
		}
		for k := 0; k < 128; k++ {
			add(k)
			add(n - 1 - k)
		}
		for i := 0; i < 600; i++ {
			add(c.Draw("cut", n))
		}
	}
	segRng := c.Sub("segs")
	h := fnv.New64a()
	h.Write(stream)
	r.Digest = fmt.Sprintf("%016x", h.Sum64())
	r.Evals = len(cuts)
	r.NonTriv = len(cuts) > 0
	for _, k := range cuts {
		src := &simio.FaultyReader{Data: stream[:k], End: segRng.IntN(4)}
		if segRng.IntN(2) == 0 {
			src.Rng, src.MaxSeg = segRng, 1+segRng.IntN(64)
		}
		err, pn := safeDecode(dec, src)
		if pn != "" {
			r.Violate("panic", "panic:"+firstLibFrame(pn), "decoding the first %d of %d bytes panicked (%v): %.1500s", k, n, desc, pn)
			return
		}
		if err == nil {
			r.Violate("truncation-accepted", "accepted:"+kind+":"+fmt.Sprint(desc["message"]), "the first %d of %d bytes decode without error (%v, end flavour %d)", k, n, desc, src.End)
			return
		}
	}
	r.Fire("cut")
}
