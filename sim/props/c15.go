package props

import (
	"crypto/sha256"
	"fmt"
	"hash/fnv"
	"math/rand/v2"
	"reflect"
	"runtime/debug"
	"strings"
	"testing"

	"github.com/ClickHouse/ch-go/proto"

	"chgosim/choice"
	"chgosim/gen"
	"chgosim/refproto"
	"chgosim/simio"
)

// c15Codec is one of the column codecs that exist in two build variants.
type c15Codec struct {
	Name string
	New  func() proto.Column
	RT   string // reference type that generates its values
}

func c15Codecs() []c15Codec {
	viaGen := func(t string) func() proto.Column {
		return func() proto.Column {
			c, err := gen.NewCol(t)
			if err != nil {
				panic(err)
			}
			return c
		}
	}
	var out []c15Codec
	for _, t := range []string{"Int8", "Int16", "Int32", "Int64", "Int128", "Int256", "UInt8", "UInt16", "UInt32", "UInt64", "UInt128", "UInt256",
		"Float32", "Float64", "Date", "Date32", "DateTime", "IPv4", "IPv6", "Bool", "UUID",
		"FixedString(8)", "FixedString(16)", "FixedString(32)", "FixedString(64)", "FixedString(128)", "FixedString(256)", "FixedString(512)"} {
		out = append(out, c15Codec{Name: t, New: viaGen(t), RT: t})
	}
	out = append(out,
		c15Codec{"DateTime64", func() proto.Column { return new(proto.ColDateTime64).WithPrecision(3) }, "DateTime64(3)"},
		c15Codec{"Decimal32", func() proto.Column { return new(proto.ColDecimal32) }, "Int32"},
		c15Codec{"Decimal64", func() proto.Column { return new(proto.ColDecimal64) }, "Int64"},
		c15Codec{"Decimal128", func() proto.Column { return new(proto.ColDecimal128) }, "Int128"},
		c15Codec{"Decimal256", func() proto.Column { return new(proto.ColDecimal256) }, "Int256"},
		c15Codec{"Enum8", func() proto.Column { return new(proto.ColEnum8) }, "Int8"},
		c15Codec{"Enum16", func() proto.Column { return new(proto.ColEnum16) }, "Int16"},
	)
	return out
}

func init() {
	Register(&Prop{
		ID: "C15", Engine: "B", Quick: 3000, Thorough: 100000, Level: "exploration", Diff: true,
		Rule: "the same case (seed) is executed by two worker binaries built from the same working tree, one with the default build tags and one with -tags purego, and their transcripts are compared line by line; a case picks one of the 35 two-variant codecs (Int8..Int256, UInt8..UInt256, Float32/64, Date, Date32, DateTime, DateTime64, Decimal32..256, Enum8/16, FixedString 8..512, IPv4, IPv6, Bool, UUID), draws rows (0, 1, few, hundreds; every value for 8- and 16-bit element types in some cases), encodes with EncodeColumn into an empty and into a non-empty buffer and with WriteColumn, decodes the reference encoding into a fresh and into a used-then-reset target, decodes a stream cut at a drawn byte, and each build is also held to the independent codec so that both being wrong the same way is not silent; a simulation-specific ingredient is only the discipline that one seed is one exactly repeatable execution in either build; distinct = distinct case digests; non-trivial = rows > 0",
		Run:  runC15,
	})
}

func shaHex(b []byte) string { s := sha256.Sum256(b); return fmt.Sprintf("%x", s[:8]) }

func runC15(t *testing.T, c *choice.Stream, r *Result, opt RunOpt) {
	codecs := c15Codecs()
	cd := codecs[c.Draw("codec", len(codecs))]
	rt, err := refproto.ParseType(cd.RT)
	if err != nil {
		panic(err)
	}
	var tr strings.Builder
	line := func(f string, a ...any) { fmt.Fprintf(&tr, f+"\n", a...) }
	defer func() {
		if p := recover(); p != nil {
			line("PANIC %v at %s", p, firstLibFrame(string(debug.Stack())))
		}
		r.Transcript = tr.String()
		h := fnv.New64a()
		h.Write([]byte(r.Transcript))
		r.Digest = fmt.Sprintf("%016x", h.Sum64())
	}()
	// ---- values ----
	var vals []any
	rows := gen.DrawRows(c, "rows")
	if rt.Size > 0 && c.Bool("rows.huge", 1, 60) {
		// a column whose wire image is just over 1, 2 or 4 MiB: whatever chunking,
		// buffering or vectorised loop a build uses gets past its first boundary
		rows = (c.Pick("rows.huge.mib", 1, 1, 2, 4)<<20)/rt.Size + c.Pick("rows.huge.plus", 1, 2, 17, 1000)
		r.Probe("huge_column")
	}
	exhaustive := rt.Size <= 2 && (rt.Kind == refproto.KInt || rt.Kind == refproto.KUInt) && c.Bool("exhaustive", 1, 6)
	if exhaustive {
		n := 1 << (8 * rt.Size)
		for i := 0; i < n; i++ {
			if rt.Kind == refproto.KInt {
				sh := uint(64 - 8*rt.Size)
				vals = append(vals, int64(uint64(i)<<sh)>>sh)
			} else {
				vals = append(vals, uint64(i))
			}
		}
		rows = n
		r.Probe("every_value")
	} else {
		vals = gen.Values(c.Sub("vals"), rt, rows)
	}
	r.NonTriv = rows > 0
	r.Cell = cd.Name
	r.Sample = map[string]any{"codec": cd.Name, "rows": rows, "every_value": exhaustive}
	line("case codec=%s rows=%d", cd.Name, rows)
	var ref refproto.W
	if err := refproto.EncodeData(&ref, rt, vals); err != nil {
		panic(err)
	}
	fill := func() proto.Column {
		col := cd.New()
		if err := gen.Fill(col, rt, vals); err != nil {
			panic(err)
		}
		return col
	}
	// ---- encode: empty buffer, non-empty buffer, vectored path ----
	{
		col := fill()
		var b proto.Buffer
		col.EncodeColumn(&b)
		line("EncodeColumn empty-buffer %s %d bytes; equals reference: %v", shaHex(b.Buf), len(b.Buf), string(b.Buf) == string(ref.B))
	}
	{
		col := fill()
		var b proto.Buffer
		prefix := c.Bytes("prefix", c.Pick("prefix.n", 1, 3, 8, 13, 16, 100))
		b.Buf = append(b.Buf, prefix...)
		col.EncodeColumn(&b)
		ok := len(b.Buf) == len(prefix)+len(ref.B) && string(b.Buf[:len(prefix)]) == string(prefix) && string(b.Buf[len(prefix):]) == string(ref.B)
		line("EncodeColumn after-%d-bytes %s %d bytes; prefix kept and equals reference: %v", len(prefix), shaHex(b.Buf), len(b.Buf), ok)
	}
	{
		col := fill()
		sink := &simio.FaultySink{FailAfter: -1}
		w := proto.NewWriter(sink, new(proto.Buffer))
		prefix := c.Bytes("wprefix", c.Pick("wprefix.n", 0, 5, 16))
		w.ChainBuffer(func(b *proto.Buffer) { b.Buf = append(b.Buf, prefix...) })
		col.WriteColumn(w)
		_, err := w.Flush()
		ok := string(sink.Got) == string(prefix)+string(ref.B)
		line("WriteColumn after-%d-bytes %s %d bytes err=%v; equals reference: %v", len(prefix), shaHex(sink.Got), len(sink.Got), err, ok)
	}
	{
		// two columns of this codec through one writer, flushed once: what the first
		// chained must still be there when the second has been written
		vals2 := gen.Values(c.Sub("vals2"), rt, c.Range("rows2", 1, 9))
		var ref2 refproto.W
		if err := refproto.EncodeData(&ref2, rt, vals2); err != nil {
			panic(err)
		}
		col, col2 := fill(), cd.New()
		if err := gen.Fill(col2, rt, vals2); err != nil {
			panic(err)
		}
		sink := &simio.FaultySink{FailAfter: -1}
		w := proto.NewWriter(sink, new(proto.Buffer))
		// the longer one first: whatever scratch memory the first write borrowed is
		// large enough for the second (so that the outcome does not depend on what
		// earlier cases of this process left in a pool)
		want := string(ref.B) + string(ref2.B)
		if len(ref2.B) > len(ref.B) {
			col, col2 = col2, col
			want = string(ref2.B) + string(ref.B)
		}
		col.WriteColumn(w)
		col2.WriteColumn(w)
		_, err := w.Flush()
		line("WriteColumn x2 %s %d bytes err=%v; equals reference: %v", shaHex(sink.Got), len(sink.Got), err, string(sink.Got) == want)
	}
	{
		// two columns that are neighbouring parts of one allocation (a batch cut in
		// two), with bytes of the caller's between them, flushed once
		col := fill()
		rv := reflect.ValueOf(col)
		if rv.Kind() == reflect.Pointer && rv.Elem().Kind() == reflect.Slice && rv.Elem().Len() >= 2 && len(ref.B)%rv.Elem().Len() == 0 {
			rows := rv.Elem().Len()
			n := 1 + c.Draw("adjacent.at", rows-1)
			pa, pb := reflect.New(rv.Elem().Type()), reflect.New(rv.Elem().Type())
			pa.Elem().Set(rv.Elem().Slice(0, n))
			pb.Elem().Set(rv.Elem().Slice(n, rows))
			ca, okA := pa.Interface().(proto.Column)
			cb, okB := pb.Interface().(proto.Column)
			if okA && okB {
				size := len(ref.B) / rows
				mark := []byte{0xAA, 0xBB, 0xCC}
				sink := &simio.FaultySink{FailAfter: -1}
				w := proto.NewWriter(sink, new(proto.Buffer))
				ca.WriteColumn(w)
				w.ChainBuffer(func(b *proto.Buffer) { b.Buf = append(b.Buf, mark...) })
				cb.WriteColumn(w)
				_, err := w.Flush()
				want := string(ref.B[:n*size]) + string(mark) + string(ref.B[n*size:])
				line("WriteColumn adjacent-halves %s %d bytes err=%v; equals reference: %v", shaHex(sink.Got), len(sink.Got), err, string(sink.Got) == want)
			}
		}
	}
	// ---- decode: fresh and used-then-reset targets ----
	// the source hands the bytes over at once or in pieces (a column is seldom
	// alone in a read buffer, and a transport delivers what it has)
	segSeed := uint64(c.Draw("src.seg", 1<<31-1))
	segMax := c.Pick("src.maxseg", 0, 0, 1, 7, 100, 4096)
	source := func(data []byte) *simio.FaultyReader {
		fr := &simio.FaultyReader{Data: data}
		if segMax > 0 {
			fr.Rng, fr.MaxSeg = rand.New(rand.NewPCG(segSeed, 1)), segMax
		}
		return fr
	}
	decode := func(label string, target proto.Column, data []byte, n int) {
		err := target.DecodeColumn(proto.NewReader(source(data)), n)
		if err != nil {
			line("DecodeColumn %s error: %v", label, err)
			return
		}
		got, rerr := gen.ReadAll(target, rt, target.Rows())
		if rerr != nil {
			line("DecodeColumn %s unreadable: %v", label, rerr)
			return
		}
		line("DecodeColumn %s rows=%d %s; equals values: %v", label, target.Rows(), shaHex([]byte(fmtVals(got))), reflect.DeepEqual(got, vals) || len(vals) == 0 && len(got) == 0)
	}
	decode("fresh", cd.New(), ref.B, rows)
	{
		// the same bytes inside a compressed frame, read through a Reader with
		// compression enabled (as the client reads every Data packet)
		method := []byte{refproto.MethodNone, refproto.MethodLZ4, refproto.MethodZSTD}[c.Draw("frame.method", 3)]
		frame, err := refproto.EncodeFrame(method, ref.B)
		if err != nil {
			panic(err)
		}
		target := cd.New()
		rd := proto.NewReader(source(frame))
		rd.EnableCompression()
		if err := target.DecodeColumn(rd, rows); err != nil {
			line("DecodeColumn compressed-frame error: %v", err)
		} else if got, rerr := gen.ReadAll(target, rt, target.Rows()); rerr != nil {
			line("DecodeColumn compressed-frame unreadable: %v", rerr)
		} else {
			line("DecodeColumn compressed-frame rows=%d %s; equals values: %v", target.Rows(), shaHex([]byte(fmtVals(got))), reflect.DeepEqual(got, vals) || len(vals) == 0 && len(got) == 0)
		}
	}
	{
		used := cd.New()
		if err := gen.Fill(used, rt, gen.Values(c.Sub("junk"), rt, c.Range("junk.n", 1, 9))); err != nil {
			panic(err)
		}
		used.Reset()
		decode("reset-after-use", used, ref.B, rows)
	}
	if len(ref.B) > 0 {
		k := c.Draw("cut", len(ref.B))
		err := cd.New().DecodeColumn(proto.NewReader(&simio.FaultyReader{Data: ref.B[:k]}), rows)
		line("DecodeColumn cut-at-%d error=%v", k, err != nil)
	}
	// each build is also held to the reference, so that "both wrong the same way" is not silent
	if strings.Contains(tr.String(), "reference: false") || strings.Contains(tr.String(), "values: false") || strings.Contains(tr.String(), "PANIC") || strings.Contains(tr.String(), "error=false") {
		r.Violate("differs-from-reference", "reference:"+cd.Name, "this build disagrees with the independent codec:\n%s", tr.String())
	}
}

var _ = choice.New
