package props

import (
	"context"
	"errors"
	"fmt"
	"hash/fnv"
	"runtime"
	"sort"
	"testing"
	"time"

	"github.com/ClickHouse/ch-go"

	"chgosim/choice"
	"chgosim/refproto"
	"chgosim/sched"
	"chgosim/simnet"
)

func init() {
	Register(&Prop{
		ID: "C10", Engine: "A", Quick: 12000, Thorough: 100000, Level: "exploration",
		Rule:     "each run = one generated query scenario (select / insert, streamed or not, drawn schema, compression, revisions, read timeout, optional back-pressure) + one cancellation fault: context cancel or deadline expiry at a drawn gate (during handshake write/read, after k client bytes, after server script position p, at scheduler step s, inside callback j), with the server going silent at that instant in half of the runs (at a packet boundary, or after the first bytes of its next packet so that the receiver sits inside a packet when the context ends), or having stopped reading altogether so that the sender is blocked inside Write; concurrent Writes are serialised by a write lock as on a socket; free schedule before the cancellation, fair mode after it; distinct = schedule digests; non-trivial = the cancellation fired while Connect or Do was in progress",
		Run:      runC10,
		SlowCase: 20 * time.Second,
	})
}

// c10Forced pins the scenario and the cancellation gate of one run (gate enumeration).
type c10Forced struct {
	scSeed uint64
	gate   string // none bytes script callback
	k      int
	cb     string
}

type c10Info struct {
	clientBytes, scriptLen, qStart int
	calls                          map[string]int
}

func runC10(t *testing.T, c *choice.Stream, r *Result, opt RunOpt) {
	if opt.Tier == "thorough" && r.Index%100 == 0 {
		runC10Enum(t, c, r, opt)
		return
	}
	c10Run(t, c, r, opt, nil)
}

// runC10Enum: one scenario instance, a cancellation-free run to measure it,
// then a cancellation at every gate of it: after every client byte (strided
// for long streams), at every position of the server script, inside every
// callback invocation; each under its own drawn schedule, server silent or not.
func runC10Enum(t *testing.T, c *choice.Stream, r *Result, opt RunOpt) {
	scSeed := uint64(1 + c.Draw("enum.scenario", 1<<31-2))
	probe := &Result{Prop: r.Prop, Index: r.Index, Seed: r.Seed}
	info := c10Run(t, c, probe, opt, &c10Forced{scSeed: scSeed, gate: "none"})
	if probe.Outcome == "harness" || probe.Outcome == "violation" {
		*r = *probe
		return
	}
	var plan []c10Forced
	st := max(1, info.clientBytes/300)
	for k := 0; k <= info.clientBytes; k += st {
		plan = append(plan, c10Forced{scSeed: scSeed, gate: "bytes", k: k})
	}
	for p := 0; p <= info.scriptLen; p++ {
		plan = append(plan, c10Forced{scSeed: scSeed, gate: "script", k: p})
	}
	var names []string
	for n := range info.calls {
		names = append(names, n)
	}
	sort.Strings(names)
	for _, n := range names {
		for j := 1; j <= info.calls[n]; j++ {
			plan = append(plan, c10Forced{scSeed: scSeed, gate: "callback", k: j, cb: n})
		}
	}
	total := &Result{}
	dg := fnv.New64a()
	for i := range plan {
		sub := &Result{Prop: r.Prop, Index: r.Index, Seed: r.Seed}
		c10Run(t, c, sub, opt, &plan[i])
		total.Steps += sub.Steps
		total.Switches += sub.Switches
		total.SimMs += sub.SimMs
		fmt.Fprintf(dg, "%s;", sub.Digest)
		for k, v := range sub.Fired {
			for j := 0; j < v; j++ {
				r.Fire(k)
			}
		}
		if sub.Outcome == "violation" || sub.Outcome == "harness" {
			fired, probes := r.Fired, r.Probes
			*r = *sub
			r.Fired, r.Probes = fired, probes
			r.Detail = fmt.Sprintf("[gate enumeration: %s %d %s] %s", plan[i].gate, plan[i].k, plan[i].cb, r.Detail)
			return
		}
	}
	r.Steps, r.Switches, r.SimMs = total.Steps, total.Switches, total.SimMs
	r.Digest = fmt.Sprintf("%016x", dg.Sum64())
	r.Evals = len(plan) + 1
	r.NonTriv = true
	r.Cell = "enumeration"
	r.Probe("gates_enumerated")
	r.Sample = map[string]any{"family": "gate enumeration of one scenario", "scenario": probe.Sample, "client_bytes": info.clientBytes, "gates": len(plan)}
}

func c10Run(t *testing.T, c *choice.Stream, r *Result, opt RunOpt, forced *c10Forced) (info c10Info) {
	Bubble(t, c, r, opt, func(e *Env) func() {
		scs := c
		if forced != nil {
			scs = choice.New(forced.scSeed)
		}
		cf := DrawConf(scs)
		sc := drawQueryScenario(scs, cf)
		// A server that keeps streaming: progress packets paced closer together than
		// the read timeout, for much longer than the bound. Only the cancellation
		// can end such a query early; a client that looks at its context only when
		// a read times out would follow the stream to its end.
		streaming := forced == nil && sc.kind == "select" && c.Bool("streaming", 1, 6)
		var cancelAtTime time.Duration
		// ... or a server that has taken the query and says nothing at all: the
		// connection is idle and healthy when the cancellation comes, so nothing
		// stands in the way of the Cancel packet
		idle := streaming && c.Bool("streaming.idle", 1, 3)
		if idle {
			streaming = true
			sc.script = append([]simnet.Step{}, sc.script[:sc.afterHandshake+2]...)
			cancelAtTime = time.Duration(c.Pick("idle.cancel.ms", 1, 20, 500, 2500, 3500, 9000)) * time.Millisecond
		}
		if streaming && !idle {
			cut := sc.afterHandshake + 2 // after the Query and the external-data terminator
			script := append([]simnet.Step{}, sc.script[:cut]...)
			gap := time.Duration(c.Pick("stream.gap.ms", 5, 100, 400)) * time.Millisecond
			if gap >= cf.EffReadTimeout() {
				gap = cf.EffReadTimeout() / 3
			}
			n := int(40 * time.Second / gap)
			if n > 400 {
				n = 400
			}
			pk := (&SPacket{Kind: "progress", Prog: refproto.Progress{Rows: 1, Bytes: 10}}).Encode(cf)
			for i := 0; i < n; i++ {
				script = append(script, simnet.Step{Label: "progress", Send: pk, Delay: gap})
			}
			script = append(script, simnet.Step{Label: "eos", Send: (&SPacket{Kind: "eos"}).Encode(cf)})
			sc.script = script
			cancelAtTime = time.Duration(c.Range("stream.cancel.ms", 100, 4000)) * time.Millisecond
		}
		info.scriptLen, info.qStart = len(sc.script), sc.afterHandshake
		e.Sim.MaxSteps = 400000
		e.Sim.DrawStrategy()
		stallProb := e.Sim.StallProb
		e.Sim.StallProb = 0 // no simulator-made delay while the hello is awaited (the hello deadline is C13's subject)
		e.W.DeliverMode = c.Weighted("deliver", 4, 1, 3)
		srv := simnet.NewServer(cf.ServerRev, sc.script)
		conn := e.W.NewConn(srv)
		if c.Bool("backpressure", 1, 5) {
			conn.Window = c.Pick("window", 16, 64, 512)
		}
		// a server that stops reading altogether (stuck process, black hole): once
		// the window is full the sender stays blocked inside Write, and only the
		// cancellation path can end the call
		stuckAfter := -1
		if conn.Window > 0 && forced == nil && c.Bool("stuck", 1, 2) {
			stuckAfter = c.Draw("stuck.after", 1200)
		}
		refused := false
		if sc.kind == "insert" && !streaming && forced == nil && stuckAfter < 0 && c.Bool("insert.refused", 1, 4) {
			refused = true
			// the server refuses the INSERT with an exception right after the schema
			// exchange, while the caller's callback may still be running and may still
			// cancel: the context's error has to show in what Do returns all the same
			for i := sc.afterHandshake; i < len(srv.Script); i++ {
				if srv.Script[i].Label == "data" && len(srv.Script[i].Send) > 0 {
					ns := append([]simnet.Step{}, srv.Script[:i+1]...)
					srv.Script = append(ns, simnet.Step{Label: "exception", Send: (&SPacket{Kind: "exception", Exc: DrawExceptionChain(c)}).Encode(cf)})
					r.Fire("insert_refused_by_exception")
					break
				}
			}
		}
		if stuckAfter >= 0 && sc.kind == "insert" && !streaming && c.Bool("stuck.early-eos", 1, 3) {
			// ... and before it stopped reading, the server declared the query finished:
			// the receive loop is gone, the sender is still at it
			for i := sc.afterHandshake; i < len(srv.Script); i++ {
				if srv.Script[i].Label == "data" && len(srv.Script[i].Send) > 0 {
					ns := append([]simnet.Step{}, srv.Script[:i+1]...)
					srv.Script = append(ns, simnet.Step{Label: "eos", Send: (&SPacket{Kind: "eos"}).Encode(cf)})
					r.Fire("server_ends_stream_early")
					break
				}
			}
		}
		if stuckAfter >= 0 && sc.kind == "select" && !streaming && c.Bool("stuck.early-eos.select", 1, 3) {
			// the same for a query without input: the answer is complete before the
			// request has been taken off the wire (the server acted on the Query
			// packet and never looked at what follows it)
			srv.Script = append(append([]simnet.Step{}, srv.Script[:sc.afterHandshake]...), simnet.Step{Label: "eos", Send: (&SPacket{Kind: "eos"}).Encode(cf)})
			r.Fire("server_ends_stream_early")
		}
		var stuckSince time.Duration = -1
		stuckNow := func() bool {
			if stuckAfter < 0 || conn.StopReadAt < 0 || conn.OutLen() <= conn.StopReadAt {
				return false
			}
			if stuckSince < 0 {
				stuckSince = e.Sim.Now()
				e.Sim.WakeAfter(2*cf.EffReadTimeout() + time.Millisecond) // a client without a read timeout sets no timer of its own
			}
			// the writer is blocked for good, or (everything fitted into the window)
			// the client has been waiting for an answer that cannot come
			return conn.OutLen() > conn.StopReadAt+conn.Window || e.Sim.Now() >= stuckSince+2*cf.EffReadTimeout()
		}

		useDeadline := c.Bool("deadline", 1, 4)
		gate := c.Weighted("gate", 2, 3, 3, 3, 2) // handshake, bytes, script, step, callback
		gateName := []string{"handshake", "bytes", "script", "step", "callback"}[gate]
		if useDeadline {
			gateName = "deadline"
		}
		kBytes := c.Draw("gate.bytes", 1500)
		pScript := sc.afterHandshake + c.Draw("gate.script", len(sc.script)-sc.afterHandshake+1)
		sStep := c.Draw("gate.step", 900)
		silence := c.Bool("silence", 1, 2)
		if streaming {
			useDeadline, gateName, silence = false, "time", false
			pScript = sc.afterHandshake
		}
		// a server that answers the hello with an exception (bad password, unknown
		// database): the handshake fails by itself, and a cancellation that lands
		// while its answer is being read still closes the connection and wins
		helloRefused := gateName == "handshake" && forced == nil && c.Bool("hello.refused", 1, 3)
		if helloRefused {
			exc := (&SPacket{Kind: "exception", Exc: []refproto.Exception{{Code: 516, Name: "DB::Exception", Message: "DB::Exception: sim: Authentication failed"}}}).Encode(cf)
			srv.Script = []simnet.Step{{Label: "hello-refused", OnPacket: func(*refproto.ClientPacket) []byte { return exc }}}
			silence = false
			r.Fire("hello_refused")
		}
		refusedLate := helloRefused && c.Bool("hello.refused.late", 2, 3)
		readAtFire := 0
		forcedCb, forcedJ := "", 0
		if forced != nil {
			useDeadline = false
			gateName = forced.gate
			switch forced.gate {
			case "bytes":
				kBytes = forced.k
			case "script":
				pScript = forced.k
			case "callback":
				forcedCb, forcedJ = forced.cb, forced.k
			}
		}
		dl := time.Duration(c.Pick("deadline.ms", 0, 1, 50, 900, 2900, 3100, 5000)) * time.Millisecond
		withCause := c.Bool("ctx.cause", 1, 3)
		lateDone := c.Bool("ctx.late", 1, 2)

		var ctx context.Context
		var cancel context.CancelFunc
		fired := false
		var firedStep int
		var firedAt time.Duration
		inCall := ""
		// The server may fall silent in the middle of a packet: the beginning of
		// its next packet arrives, the rest never does, and the cancellation comes
		// when the receiver is already inside that packet.
		partial0 := forced == nil && !streaming && c.Bool("silence.partial", 1, 2) && !refused
		partial := silence && partial0
		partial0 = partial0 && useDeadline && c.Bool("silence.partial.deadline", 2, 3)
		partialFrac := c.Draw("silence.partial.at", 1000)
		// the packet the server begins and never finishes may be an exception
		var partialExc []byte
		if c.Bool("silence.partial.exc", 1, 3) {
			partialExc = (&SPacket{Kind: "exception", Exc: DrawExceptionChain(c)}).Encode(cf)
			if c.Bool("silence.partial.exc.head", 1, 2) {
				partialFrac = c.Draw("silence.partial.exc.at", 12) // inside the code and the first fields
			}
		}
		var cancelLateAt time.Duration = -1
		doCancel := func() {
			fired = true
			firedStep = e.Sim.Step
			firedAt = e.Sim.Now()
			readAtFire = conn.ReadLen()
			e.Sim.SetFair()
			cancel()
		}
		fire := func() {
			if fired || cancelLateAt >= 0 {
				return
			}
			if silence {
				var next []byte
				for i := srv.ScriptPos(); i < len(srv.Script); i++ {
					if srv.Script[i].OnPacket != nil {
						break
					}
					if len(srv.Script[i].Send) > 0 {
						next = srv.Script[i].Send
						break
					}
				}
				srv.Script = srv.Script[:srv.ScriptPos()]
				srv.Auto = nil
				if partialExc != nil {
					next = partialExc
				}
				if partial && len(next) > 1 && !useDeadline {
					k := 1 + partialFrac%(len(next)-1)
					conn.Enqueue(next[:k])
					r.Fire("silent_mid_packet")
					cancelLateAt = e.Sim.Now() + time.Millisecond // once the receiver sits inside the packet
					e.Sim.AddEnv(&sched.EnvFunc{N: "cancel-late", E: func() bool { return !fired && e.Sim.Now() >= cancelLateAt }, R: doCancel})
					e.Sim.WakeAfter(time.Millisecond)
					return
				}
			}
			doCancel()
		}
		if useDeadline {
			// the context is created inside the bubble by main, so that its timer is on the fake clock
		} else {
			if withCause {
				// the caller attaches a cause of its own: ctx.Err() is still what the
				// call's error has to match
				var cc context.CancelCauseFunc
				ctx, cc = context.WithCancelCause(context.Background())
				cancel = func() { cc(errC10Cause) }
			} else {
				ctx, cancel = context.WithCancel(context.Background())
			}
			if far := c.Pick("far.deadline.s", 0, 0, 120, 600, 1800); far > 0 {
				// a context that is cancelled explicitly long before its own (far) deadline
				var c2 context.CancelFunc
				ctx, c2 = context.WithTimeout(ctx, time.Duration(far)*time.Second)
				_ = c2
				r.Fire("cancel_with_far_deadline")
			}
			switch gateName {
			case "callback":
				names := []string{"result", "progress", "profile", "events", "logs"}
				if sc.kind == "insert" {
					names = []string{"input"}
				}
				name, j := names[c.Draw("cb.name", len(names))], 1+c.Draw("cb.j", 3)
				if forcedCb != "" {
					name, j = forcedCb, forcedJ
				}
				sc.rec.OnCall = func(n string, k int) {
					if n == name && k == j {
						e.Sim.Note("cancel", "inside callback "+n)
						fire()
					}
				}
			default:
				e.Sim.AddEnv(&sched.EnvFunc{N: "cancel", E: func() bool {
					if fired || cancelLateAt >= 0 {
						return false
					}
					switch gateName {
					case "none":
						return false
					case "time":
						return e.Sim.Now() >= cancelAtTime
					case "handshake":
						if helloRefused && refusedLate {
							return conn.Enq() > 0 // the answer is on its way or waiting to be read
						}
						return true
					case "bytes":
						return conn.OutLen() >= kBytes
					case "script":
						return srv.ScriptPos() >= pScript
					default:
						return e.Sim.Step >= sStep
					}
				}, R: fire})
			}
		}
		if stuckAfter >= 0 && !useDeadline {
			// whatever the gate: once the writer is blocked for good nothing else
			// would ever move, so the cancellation comes then at the latest
			e.Sim.AddEnv(&sched.EnvFunc{N: "cancel-stuck", E: func() bool { return !fired && cancelLateAt < 0 && stuckNow() }, R: fire})
		}
		r.Cell = fmt.Sprintf("%s/%s/rt%v", sc.kind, gateName, cf.EffReadTimeout())
		r.Sample = map[string]any{"kind": sc.kind, "gate": gateName, "k_bytes": kBytes, "script_pos": pScript, "step": sStep, "silence": silence, "deadline": dl.String(),
			"client_rev": cf.ClientRev, "server_rev": cf.ServerRev, "compression": cf.Comp.String(), "read_timeout": cf.EffReadTimeout().String(), "window": conn.Window, "script": scriptLabels(sc.script)}
		bound := cf.EffReadTimeout() + 5*time.Second

		var mainDone bool
		e.OnHang = func(info string) {
			if !fired && !useDeadline {
				r.Harness("nothing can move although the context was never cancelled (gate %s)\n%s", gateName, info)
				return
			}
			r.Violate("no-return", "no-return:"+inCall, "%s never returned after the context was done (gate %s)\n%s", inCall, gateName, info)
		}
		e.After = func(out sched.Outcome) {
			if !mainDone || r.Outcome == "violation" {
				return
			}
			// (5) nothing started by the call is still alive
			buf := make([]byte, 1<<18)
			buf = buf[:runtime.Stack(buf, true)]
			if left := LibGoroutines(string(buf)); len(left) > 0 && fired {
				r.Violate("goroutine-leak", "leak:"+firstLibFrame(left[0]), "%d goroutine(s) with a library frame still alive after the call returned:\n%.1500s", len(left), left[0])
			}
		}
		return func() {
			defer func() { mainDone = true }()
			if idle {
				// nothing else keeps the clock moving towards the cancellation (a
				// client without a read timeout sets no timer at all)
				e.Sim.WakeAfter(cancelAtTime)
			}
			if useDeadline {
				if withCause {
					ctx, cancel = context.WithTimeoutCause(context.Background(), dl, errC10Cause)
				} else if lateDone {
					// the context's own timer is not the first to notice the deadline
					ctx, cancel = NewLateCtx(e, dl)
					r.Fire("deadline_seen_by_the_connection_first")
				} else {
					ctx, cancel = context.WithTimeout(context.Background(), dl)
				}
				defer cancel()
				e.Sim.FairAfter = dl + 1 // liveness is judged from the deadline on: no simulator-made delays after it
				if silence {
					// a server that falls silent at the deadline
					e.Sim.AddEnv(&sched.EnvFunc{N: "silence", E: func() bool { return !fired && ctx.Err() != nil }, R: func() {
						fired = true
						firedStep, firedAt = e.Sim.Step, dl
						srv.Script = srv.Script[:srv.ScriptPos()]
						e.Sim.SetFair()
					}})
				}
				if partial0 {
					// ... or earlier, in the middle of a packet: the deadline then passes
					// while the receiver sits inside that packet
					early := false
					e.Sim.AddEnv(&sched.EnvFunc{N: "silent-mid-packet", E: func() bool {
						if early || fired || ctx.Err() != nil {
							return false
						}
						switch gate {
						case 1:
							return conn.OutLen() >= kBytes
						case 2:
							return srv.ScriptPos() >= pScript
						default:
							return e.Sim.Step >= sStep
						}
					}, R: func() {
						early = true
						var next []byte
						for i := srv.ScriptPos(); i < len(srv.Script); i++ {
							if srv.Script[i].OnPacket != nil {
								break
							}
							if len(srv.Script[i].Send) > 0 {
								next = srv.Script[i].Send
								break
							}
						}
						srv.Script = srv.Script[:srv.ScriptPos()]
						srv.Auto = nil
						if partialExc != nil {
							next = partialExc
						}
						if len(next) > 1 {
							conn.Enqueue(next[:1+partialFrac%(len(next)-1)])
							r.Fire("silent_mid_packet_before_deadline")
						}
					}})
				}
			}
			ctxDone := func() (bool, time.Duration, int) {
				if useDeadline {
					if ctx.Err() != nil || e.Sim.Now() >= dl {
						// liveness is judged from the instant fair mode began: a
						// simulator-made stall may have carried the clock past the deadline
						return true, max(dl, e.Sim.FairSince), firedStep
					}
					return false, 0, 0
				}
				return fired, firedAt, firedStep
			}
			wantErr := func() error {
				if err := ctx.Err(); err != nil {
					return err
				}
				if useDeadline {
					return context.DeadlineExceeded // the deadline has passed, whoever noticed first
				}
				return nil
			}
			inCall = "Connect"
			cl, err := ch.Connect(ctx, conn, cf.Options())
			if err != nil {
				isDone, at, _ := ctxDone()
				if helloRefused && (!isDone || conn.ReadLen() == readAtFire) {
					// the server's verdict alone, or a cancellation that came when the
					// whole answer had been read already: it may have come after the
					// handshake made up its mind
					if !isDone && !ch.IsException(err) {
						r.Violate("error-mismatch", "hello-refused-error", "the server refused the hello with an exception, Connect failed with %q", err)
					}
					return
				}
				if !isDone {
					r.Harness("handshake failed without cancellation: %v", err)
					return
				}
				r.NonTriv = true
				r.Fire("cancel_during_handshake")
				if !errors.Is(err, wantErr()) {
					r.Violate("error-mismatch", "handshake-error", "Connect failed with %q which does not match the context error %v", err, wantErr())
				}
				if !conn.IsClosed() {
					r.Violate("not-closed", "handshake-not-closed", "Connect returned %q after cancellation but the connection is not closed", err)
				}
				if took := e.Sim.Now() - at; took > bound {
					r.Violate("slow-return", "handshake-slow", "Connect returned %v after the context was done (bound %v)", took, bound)
				}
				return
			}
			if conn.IsClosed() && !cl.IsClosed() {
				// a cancellation that came at the very end of the handshake: either the
				// handshake fails, or the client it returns is usable
				r.Violate("not-closed", "connect-ok-on-closed-conn", "Connect returned a client and no error, but the connection has been closed (by the handshake's own watchdog) and the client does not know: IsClosed()=false")
				return
			}
			inCall = "Do"
			if stuckAfter >= 0 {
				conn.StopReadAt = conn.OutLen() + stuckAfter
				r.Fire("server_stops_reading")
			}
			e.Sim.StallProb = stallProb
			derr := cl.Do(ctx, sc.query)
			info.clientBytes = conn.OutLen()
			info.calls = sc.rec.Calls
			isDone, at, step := ctxDone()
			if derr == nil {
				// the query completed; a cancellation that came too late changes nothing
				r.Probe("completed_before_cancel")
				return
			}
			if !isDone && ctx.Err() != nil {
				r.Probe("far_deadline_expired_first")
				return
			}
			if !isDone && refused && ch.IsException(derr) {
				r.Probe("refused_before_cancel")
				return
			}
			if !isDone {
				r.Harness("Do failed without cancellation: %v (server parse error %v)", derr, srv.Parser.Err)
				return
			}
			if refused && ch.IsException(derr) && !errors.Is(derr, wantErr()) && gateName != "callback" {
				// the cancellation may have come after Do had settled on what it returns;
				// only a cancellation from inside a callback provably precedes that
				r.Probe("refused_and_cancelled_late")
				return
			}
			r.NonTriv = true
			r.Fire("cancel_" + gateName)
			if !errors.Is(derr, wantErr()) {
				r.Violate("error-mismatch", "do-error:"+gateName, "Do failed with %q which does not match the context error %v", derr, wantErr())
				return
			}
			if took := e.Sim.Now() - at; took > bound {
				r.Violate("slow-return", "do-slow:"+gateName, "Do returned %v after the context was done (read timeout %v, bound %v)", took, cf.EffReadTimeout(), bound)
			}
			if !cl.IsClosed() && !conn.IsClosed() && srv.Done() && srv.Parser.Err == nil && srv.Parser.Pos == conn.OutLen() {
				// The cancellation came when the whole exchange was already over on
				// the wire (every server packet sent, every client byte a whole
				// packet): there was no query left to cancel. The client may stay
				// open only if it is really usable.
				r.Probe("cancel_after_exchange_complete")
				srv.Auto = autoResponder(cf)
				mark := conn.OutLen()
				perr := cl.Ping(context.Background())
				if got := conn.OutCopy()[mark:]; perr != nil || len(got) != 1 || got[0] != 4 {
					r.Violate("not-closed", "open-unusable:"+gateName, "Do returned %q, left the client open, and the next Ping wrote % x and returned %v", derr, trunc(got, 32), perr)
				}
				return
			}
			if refused && ch.IsException(derr) && !cl.IsClosed() {
				// the server had ended the query before the cancellation: there was
				// nothing left to cancel (where the streams stand then is C04's subject)
				r.Probe("refused_then_cancelled_client_open")
				return
			}
			if !cl.IsClosed() || !conn.IsClosed() {
				r.Violate("not-closed", "do-not-closed:"+gateName, "Do returned %q in the middle of the exchange but client closed=%v connection closed=%v (server script %d/%d)", derr, cl.IsClosed(), conn.IsClosed(), srv.ScriptPos(), len(srv.Script))
				return
			}
			if conn.CloseCount != 1 {
				r.Probe("closed_more_than_once")
			}
			// (3) what the closing goroutine wrote after the context was done
			closer := conn.CloseGids[0]
			var tail []byte
			out := conn.OutCopy()
			for _, w := range conn.Writes {
				if w.Gid == closer && (useDeadline || w.Step >= step) {
					tail = append(tail, out[w.Off:w.Off+w.N]...)
				}
			}
			if !(len(tail) == 0 || (len(tail) == 1 && tail[0] == 3)) {
				r.Violate("cancel-packet", "cancel-bytes", "the goroutine that closed the connection wrote % x after cancellation; a Cancel packet is the single byte 03", trunc(tail, 32))
			} else if len(tail) == 1 {
				r.Probe("cancel_packet_sent")
			} else if idle && conn.StopReadAt < 0 && conn.Window == 0 {
				r.Violate("cancel-packet", "cancel-missing", "the query was cancelled while the server was silent and the connection idle and writable, yet no Cancel packet was written before the connection was closed (read timeout %v)", cf.ReadTimeout)
			} else if conn.StopReadAt < 0 && conn.Window == 0 && !conn.CloseErr {
				// nothing stood in the way of the one byte: the peer was reading, no
				// back-pressure, no write fault
				r.Probe("cancel_packet_missing_on_healthy_conn:" + gateName)
			}
		}
	})
	return info
}

var _ = choice.New

var errC10Cause = errors.New("shutting down: caller's own cause")
