package props

import (
	"bufio"
	"bytes"
	"encoding/json"
	"fmt"
	"os"
	"os/exec"
	"path/filepath"
	"runtime"
	"runtime/debug"
	"sort"
	"strconv"
	"strings"
	"sync"
	"testing"
	"time"

	"chgosim/choice"
)

// One binary, three roles selected by VERIF_MODE:
//   parent (default): fan out, aggregate, shrink, write evidence, exit code
//   worker:           run a range of run indexes, one JSON line per run
//   replay:           run one recorded choice list

func TestMain(m *testing.M) {
	switch os.Getenv("VERIF_MODE") {
	case "worker", "replay":
		os.Exit(m.Run())
	default:
		os.Exit(parentMain())
	}
}

func tierID(t string) uint64 {
	if t == "thorough" {
		return 2
	}
	return 1
}

func runSeed(base uint64, prop, tier string, idx int) uint64 {
	return choice.SplitMix(base, choice.HashString(prop), tierID(tier), uint64(idx))
}

func envInt(k string, def int) int {
	if v := os.Getenv(k); v != "" {
		if n, err := strconv.Atoi(v); err == nil {
			return n
		}
	}
	return def
}

type replayFile struct {
	Property   string   `json:"property"`
	Tier       string   `json:"tier"`
	BaseSeed   uint64   `json:"verif_seed"`
	Index      int      `json:"index"`
	RunSeed    uint64   `json:"run_seed"`
	Flavor     string   `json:"build_flavor"`
	Choices    []uint64 `json:"choices"`
	Clause     string   `json:"clause"`
	Key        string   `json:"key"`
	Detail     string   `json:"detail"`
	Digest     string   `json:"digest"`
	Trace      []string `json:"trace,omitempty"`
	Sample     any      `json:"scenario,omitempty"`
	Minimised  bool     `json:"minimised"`
	ShrinkRuns int      `json:"shrink_runs"`
	OrigLen    int      `json:"original_choice_count"`
	// FromSeed: generate the choices from run_seed (the original process died
	// before it could report them) and log them to VERIF_CHOICES_OUT as drawn.
	FromSeed bool `json:"from_seed,omitempty"`
}

func emit(w *bufio.Writer, r *Result) {
	b, err := json.Marshal(r)
	if err != nil {
		b, _ = json.Marshal(&Result{Prop: r.Prop, Index: r.Index, Seed: r.Seed, Outcome: "harness", Detail: "marshal: " + err.Error()})
	}
	w.WriteString("R ")
	w.Write(b)
	w.WriteByte('\n')
	w.Flush()
}

// safeRun turns a panic that escapes a driver (engine B runs library code on
// the worker's own goroutine) into a violation of that run.
func safeRun(prop *Prop, t *testing.T, c *choice.Stream, r *Result, opt RunOpt) {
	defer func() {
		if p := recover(); p != nil {
			st := string(debug.Stack())
			r.frozen = false
			r.Violate("panic", "panic:"+firstLibFrame(st), "panic: %v\n%.2000s", p, st)
		}
	}()
	prop.Run(t, c, r, opt)
}

func TestWorker(t *testing.T) {
	mode := os.Getenv("VERIF_MODE")
	if mode != "worker" && mode != "replay" {
		t.Skip()
	}
	prop := Registry[os.Getenv("VERIF_PROP")]
	if prop == nil {
		t.Fatalf("unknown property %q", os.Getenv("VERIF_PROP"))
	}
	tier := os.Getenv("VERIF_TIER")
	if tier == "" {
		tier = "quick"
	}
	out := bufio.NewWriter(os.Stdout)
	opt := RunOpt{Tier: tier, KeepTrace: os.Getenv("VERIF_TRACE") == "1"}
	if os.Getenv("VERIF_SITES") == "1" {
		opt.Tier = "sites"
	}
	if mode == "replay" {
		var rf replayFile
		b, err := os.ReadFile(os.Getenv("VERIF_REPLAY"))
		if err != nil {
			t.Fatal(err)
		}
		if err := json.Unmarshal(b, &rf); err != nil {
			t.Fatal(err)
		}
		c := choice.Replay(rf.RunSeed, rf.Choices)
		if rf.FromSeed {
			c = choice.New(rf.RunSeed)
			if p := os.Getenv("VERIF_CHOICES_OUT"); p != "" {
				if f, err := os.Create(p); err == nil {
					c.Sink = f
				}
			}
		}
		r := &Result{Prop: prop.ID, Index: rf.Index, Seed: rf.RunSeed}
		fmt.Fprintf(out, "S %d\n", rf.Index)
		out.Flush()
		fmt.Fprintf(os.Stderr, "S %d\n", rf.Index)
		safeRun(prop, t, c, r, opt)
		if r.Outcome == "" {
			r.Outcome = "ok"
		}
		r.Choices = c.Rec
		emit(out, r)
		return
	}
	base, _ := strconv.ParseUint(os.Getenv("VERIF_SEED"), 10, 64)
	var start, count int
	fmt.Sscanf(os.Getenv("VERIF_RANGE"), "%d:%d", &start, &count)
	for i := start; i < start+count; i++ {
		seed := runSeed(base, prop.ID, tier, i)
		c := choice.New(seed)
		r := &Result{Prop: prop.ID, Index: i, Seed: seed}
		fmt.Fprintf(out, "S %d\n", i)
		out.Flush()
		if prop.OnStderr != nil {
			fmt.Fprintf(os.Stderr, "S %d\n", i)
		}
		safeRun(prop, t, c, r, opt)
		if r.Outcome == "" {
			r.Outcome = "ok"
		}
		if r.Outcome == "violation" || r.Outcome == "harness" || prop.OnStderr != nil || prop.Diff {
			r.Choices = c.Rec
		}
		emit(out, r)
		if bubbleLeaked {
			// goroutines of the last bubble cannot be reclaimed: fresh process
			fmt.Fprintf(out, "X %d\n", i)
			out.Flush()
			os.Exit(0)
		}
	}
	if len(WorkerSites) > 0 {
		var ss, ps []string
		for k := range WorkerSites {
			ss = append(ss, k)
		}
		for k := range WorkerPairs {
			ps = append(ps, k)
		}
		b, _ := json.Marshal(map[string][]string{"sites": ss, "pairs": ps})
		fmt.Fprintf(out, "Z %s\n", b)
	}
	fmt.Fprintf(out, "E\n")
	out.Flush()
}

// ---------------------------------------------------------------- parent --

type finding struct {
	Property string `json:"property"`
	Key      string `json:"key"`
	Status   string `json:"status"` // known | fixed
	What     string `json:"what"`
	Commit   string `json:"commit,omitempty"`
}

type findingsFile struct {
	Findings []finding `json:"findings"`
}

func verifDir() string {
	if d := os.Getenv("VERIF_DIR"); d != "" {
		return d
	}
	return "/verif"
}

// outDir is where replay files and evidence go: /verif, unless the check runs
// against another tree than /repo (evaluation of a seeded change), which must
// not overwrite the evidence of the real tree.
func outDir() string {
	if d := os.Getenv("VERIF_OUT"); d != "" {
		return d
	}
	return verifDir()
}

func loadFindings() []finding {
	var ff findingsFile
	b, err := os.ReadFile(filepath.Join(verifDir(), "known_findings.json"))
	if err != nil {
		return nil
	}
	if err := json.Unmarshal(b, &ff); err != nil {
		fmt.Fprintln(os.Stderr, "known_findings.json:", err)
		os.Exit(2)
	}
	return ff.Findings
}

type workerRun struct {
	sites   []string
	pairs   []string
	results []*Result
	died    *Result // set when the process ended abnormally
	stderr  string
}

// spawn runs one worker process over [start, start+count) and returns the
// results; if the process dies or is killed by the watchdog the run that was
// in progress is reported in died and the caller continues after it.
func spawn(prop, tier string, seed uint64, start, count int, extraEnv []string, timeout time.Duration) workerRun {
	return spawnBin(os.Args[0], prop, tier, seed, start, count, extraEnv, timeout)
}

// diffTranscripts turns a transcript difference between the two builds into a
// violation of the run.
func diffTranscripts(a, b *Result) {
	if a.Transcript == b.Transcript {
		return
	}
	la, lb := strings.Split(a.Transcript, "\n"), strings.Split(b.Transcript, "\n")
	i := 0
	for i < len(la) && i < len(lb) && la[i] == lb[i] {
		i++
	}
	x, y := "<end>", "<end>"
	if i < len(la) {
		x = la[i]
	}
	if i < len(lb) {
		y = lb[i]
	}
	op := strings.Fields(x + " ? ?")
	if a.Outcome != "violation" {
		a.Outcome = "violation"
		a.Clause = "build-divergence"
		what := op[1]
		if i := strings.IndexAny(what, "-0123456789"); i > 0 {
			what = what[:i]
		}
		a.Key = "diverge:" + a.Cell + ":" + op[0] + ":" + what
	}
	a.Detail = fmt.Sprintf("the default and the purego build give different transcripts for the same case; first difference at line %d\n default: %s\n purego : %s\n--- default transcript:\n%s--- purego transcript:\n%s", i, x, y, a.Transcript, b.Transcript)
}

func spawnBin(bin, prop, tier string, seed uint64, start, count int, extraEnv []string, timeout time.Duration) workerRun {
	cmd := exec.Command(bin, "-test.run=^TestWorker$", "-test.timeout=0")
	if kb := os.Getenv("VERIF_ULIMIT_KB"); kb != "" {
		// address-space limit for the worker only (C06)
		cmd = exec.Command("bash", "-c", "ulimit -v "+kb+"; exec \"$0\" \"$@\"", bin, "-test.run=^TestWorker$", "-test.timeout=0")
	}
	cmd.Env = append(os.Environ(),
		"VERIF_MODE=worker", "VERIF_PROP="+prop, "VERIF_TIER="+tier,
		"VERIF_SEED="+strconv.FormatUint(seed, 10),
		fmt.Sprintf("VERIF_RANGE=%d:%d", start, count),
	)
	if p := Registry[prop]; p != nil && p.OnStderr != nil {
		// race-detector checks: one processor per worker. The schedule is
		// cooperative anyway (one goroutine runs at a time); on one processor
		// every goroutine also shares the local slot of each sync.Pool, so what a
		// pool hands from one goroutine to the next does not depend on where the
		// Go scheduler happened to place them
		cmd.Env = append(cmd.Env, "GOMAXPROCS=1")
	}
	cmd.Env = append(cmd.Env, extraEnv...)
	return runWorker(cmd, timeout)
}

func runWorker(cmd *exec.Cmd, timeout time.Duration) workerRun {
	var wr workerRun
	var stderr bytes.Buffer
	cmd.Stderr = &stderr
	stdout, err := cmd.StdoutPipe()
	if err != nil {
		wr.died = &Result{Outcome: "harness", Detail: err.Error()}
		return wr
	}
	if err := cmd.Start(); err != nil {
		wr.died = &Result{Outcome: "harness", Detail: err.Error()}
		return wr
	}
	timedOut := false
	timer := time.AfterFunc(timeout, func() {
		timedOut = true
		_ = cmd.Process.Kill()
	})
	cur := -1
	finished := false
	sc := bufio.NewScanner(stdout)
	sc.Buffer(make([]byte, 1<<20), 1<<28)
	for sc.Scan() {
		line := sc.Text()
		switch {
		case strings.HasPrefix(line, "S "):
			cur, _ = strconv.Atoi(line[2:])
		case strings.HasPrefix(line, "R "):
			var r Result
			if err := json.Unmarshal([]byte(line[2:]), &r); err == nil {
				wr.results = append(wr.results, &r)
				cur = -1
			}
		case strings.HasPrefix(line, "Z "):
			var z map[string][]string
			if json.Unmarshal([]byte(line[2:]), &z) == nil {
				wr.sites, wr.pairs = z["sites"], z["pairs"]
			}
		case line == "E" || strings.HasPrefix(line, "X "):
			finished = true
		}
	}
	werr := cmd.Wait()
	timer.Stop()
	wr.stderr = stderr.String()
	if !finished && (cur >= 0 || werr != nil) {
		d := &Result{Index: cur, Outcome: "died"}
		tail := wr.stderr
		if len(tail) > 6000 {
			// the reason is at the top of a crash report, the frames of interest often at its end
			tail = tail[:3000] + "\n[...]\n" + tail[len(tail)-3000:]
		}
		if timedOut {
			d.Outcome = "watchdog"
			d.Detail = fmt.Sprintf("worker killed after %v of real time while running index %d\n%s", timeout, cur, tail)
		} else {
			d.Detail = fmt.Sprintf("worker exited (%v) while running index %d\n%s", werr, cur, tail)
		}
		wr.died = d
	}
	return wr
}

type agg struct {
	mu         sync.Mutex
	results    int
	evals      int
	outcomes   map[string]int
	fired      map[string]int
	probes     map[string]int
	cells      map[string]int
	digests    map[string]struct{}
	nontrivial map[string]struct{}
	steps      int64
	switches   int64
	simMs      int64
	sitesMax   int
	pairsMax   int
	samples    []any
	viol       map[string]*Result // first result per clause|key
	violCount  map[string]int
	harness    []*Result
	siteSet    map[string]struct{}
	pairSet    map[string]struct{}
}

func newAgg() *agg {
	return &agg{outcomes: map[string]int{}, fired: map[string]int{}, probes: map[string]int{}, cells: map[string]int{},
		digests: map[string]struct{}{}, nontrivial: map[string]struct{}{}, viol: map[string]*Result{}, violCount: map[string]int{},
		siteSet: map[string]struct{}{}, pairSet: map[string]struct{}{}}
}

func (a *agg) add(r *Result) {
	a.mu.Lock()
	defer a.mu.Unlock()
	a.results++
	if r.Evals > 1 {
		a.evals += r.Evals
	} else {
		a.evals++
	}
	a.outcomes[r.Outcome]++
	if r.Alt {
		a.probes["ran_on_the_alternative_build"]++
	}
	for k, v := range r.Fired {
		a.fired[k] += v
	}
	for k, v := range r.Probes {
		a.probes[k] += v
	}
	if r.Cell != "" {
		a.cells[r.Cell]++
	}
	if r.Digest != "" {
		a.digests[r.Digest] = struct{}{}
		if r.NonTriv {
			a.nontrivial[r.Digest] = struct{}{}
		}
	}
	a.steps += int64(r.Steps)
	a.switches += int64(r.Switches)
	a.simMs += r.SimMs
	if r.Sites > a.sitesMax {
		a.sitesMax = r.Sites
	}
	if r.Pairs > a.pairsMax {
		a.pairsMax = r.Pairs
	}
	for _, s := range r.SiteSet {
		a.siteSet[s] = struct{}{}
	}
	if r.Sample != nil && len(a.samples) < 5 && (r.NonTriv || len(a.samples) < 2) {
		a.samples = append(a.samples, map[string]any{"index": r.Index, "seed": r.Seed, "outcome": r.Outcome, "digest": r.Digest, "case": r.Sample})
	}
	switch r.Outcome {
	case "violation":
		k := r.Clause + "|" + r.Key
		a.violCount[k]++
		if old := a.viol[k]; old == nil || len(r.Choices) < len(old.Choices) {
			a.viol[k] = r
		}
	case "harness", "watchdog", "died":
		a.harness = append(a.harness, r)
	}
}

func parentMain() int {
	propID := os.Getenv("VERIF_PROP")
	prop := Registry[propID]
	if prop == nil {
		fmt.Fprintf(os.Stderr, "unknown property %q\n", propID)
		return 2
	}
	tier := os.Getenv("VERIF_TIER")
	if tier == "" {
		tier = "quick"
	}
	var base uint64 = 1
	if v := os.Getenv("VERIF_SEED"); v != "" {
		if n, err := strconv.ParseUint(v, 10, 64); err == nil {
			base = n
		}
	}
	fmt.Printf("VERIF_SEED=%d property=%s tier=%s\n", base, propID, tier)
	if rp := os.Getenv("VERIF_REPLAY"); rp != "" {
		return replayMain(prop, rp)
	}
	total := prop.Quick
	if tier == "thorough" {
		total = prop.Thorough
	}
	if n := envInt("VERIF_RUNS", 0); n > 0 {
		total = n
	}
	workers := envInt("VERIF_WORKERS", runtime.NumCPU())
	chunk := envInt("VERIF_CHUNK", 0)
	if chunk == 0 {
		chunk = total / (workers * 4)
		if chunk < 10 {
			chunk = 10
		}
		if chunk > 400 {
			chunk = 400
		}
	}
	perRun := time.Duration(envInt("VERIF_RUN_TIMEOUT_S", 180)) * time.Second
	startWall := time.Now()
	a := newAgg()
	type job struct{ start, count int }
	jobs := make(chan job, 1024)
	var wg sync.WaitGroup
	for w := 0; w < workers; w++ {
		wg.Add(1)
		go func() {
			defer wg.Done()
			for j := range jobs {
				s, n := j.start, j.count
				for n > 0 {
					per := 6 * time.Second
					if prop.SlowCase > per {
						per = prop.SlowCase
					}
					var wr workerRun
					if alt := os.Getenv("VERIF_WORKER_ALT"); alt != "" && prop.AltEvery > 0 && (j.start/chunk)%prop.AltEvery == prop.AltEvery-1 {
						wr = spawnBin(alt, propID, tier, base, s, n, nil, perRun+time.Duration(n)*per)
						for _, x := range wr.results {
							x.Alt = true
						}
						if wr.died != nil {
							wr.died.Alt = true
						}
					} else {
						wr = spawn(propID, tier, base, s, n, nil, perRun+time.Duration(n)*per)
					}
					if prop.OnStderr != nil {
						prop.OnStderr(wr.stderr, wr.results, func(k string) { a.mu.Lock(); a.probes[k]++; a.mu.Unlock() })
					}
					if prop.Diff {
						other := spawnBin(os.Getenv("VERIF_WORKER_PUREGO"), propID, tier, base, s, n, nil, perRun+time.Duration(n)*2*time.Second)
						byIdx := map[int]*Result{}
						for _, o := range other.results {
							byIdx[o.Index] = o
						}
						for _, r := range wr.results {
							if o := byIdx[r.Index]; o != nil {
								diffTranscripts(r, o)
							} else if r.Outcome == "ok" {
								r.Outcome, r.Detail = "harness", "the purego worker produced no result for this case"
							}
						}
					}
					a.mu.Lock()
					for _, x := range wr.sites {
						a.siteSet[x] = struct{}{}
					}
					for _, x := range wr.pairs {
						a.pairSet[x] = struct{}{}
					}
					a.mu.Unlock()
					done := 0
					for _, r := range wr.results {
						a.add(r)
						if r.Index >= s+done {
							done = r.Index - s + 1
						}
					}
					if wr.died != nil {
						d := wr.died
						d.Prop = propID
						if d.Index < 0 {
							d.Index = s + done
						}
						d.Seed = runSeed(base, propID, tier, d.Index)
						if prop.OnDeath != nil {
							prop.OnDeath(d)
						}
						a.add(d)
						done = d.Index - s + 1
					}
					if done <= 0 {
						done = n // nothing useful came back; do not loop forever
					}
					s += done
					n -= done
				}
			}
		}()
	}
	for s := 0; s < total; s += chunk {
		n := chunk
		if s+n > total {
			n = total - s
		}
		jobs <- job{s, n}
	}
	close(jobs)
	wg.Wait()

	// determinism spot check: re-run a few indexes in a fresh process and compare digests
	detChecked, detBad := 0, 0
	if envInt("VERIF_NODET", 0) == 0 && prop.Engine == "A" {
		step := total / 8
		if step < 1 {
			step = 1
		}
		var idxs []int
		for i := 0; i < total && len(idxs) < 8; i += step {
			idxs = append(idxs, i)
		}
		var dmu sync.Mutex
		var dwg sync.WaitGroup
		for _, i := range idxs {
			dwg.Add(1)
			go func(i int) {
				defer dwg.Done()
				w1 := spawn(propID, tier, base, i, 1, nil, perRun)
				w2 := spawn(propID, tier, base, i, 1, []string{"GOMAXPROCS=1"}, perRun)
				if len(w1.results) == 1 && len(w2.results) == 1 {
					dmu.Lock()
					defer dmu.Unlock()
					detChecked++
					if w1.results[0].Digest != w2.results[0].Digest || w1.results[0].Outcome != w2.results[0].Outcome || w1.results[0].Steps != w2.results[0].Steps {
						detBad++
						fmt.Printf("NONDETERMINISM index=%d digest %s vs %s steps %d vs %d outcome %s vs %s\n", i,
							w1.results[0].Digest, w2.results[0].Digest, w1.results[0].Steps, w2.results[0].Steps, w1.results[0].Outcome, w2.results[0].Outcome)
					}
				}
			}(i)
		}
		dwg.Wait()
	}

	// triage violations against the known-findings file
	known := loadFindings()
	isKnown := func(key string) *finding {
		for i := range known {
			f := &known[i]
			if f.Property == propID && f.Status == "known" && f.Key == key {
				return f
			}
		}
		return nil
	}
	exit := 0
	var keys []string
	for k := range a.viol {
		keys = append(keys, k)
	}
	sort.Strings(keys)
	newViol := 0
	var knownHit []string
	for _, k := range keys {
		r := a.viol[k]
		if f := isKnown(r.Key); f != nil {
			knownHit = append(knownHit, fmt.Sprintf("KNOWN-FINDING: property=%s %s [key=%s, %d runs]", propID, f.What, f.Key, a.violCount[k]))
			continue
		}
		newViol++
		path, ok := shrinkAndSave(prop, tier, base, r)
		if !ok {
			fmt.Printf("REPLAY-MISMATCH property=%s clause=%s key=%s index=%d: the violation did not reproduce in a fresh process (machinery fault)\n", propID, r.Clause, r.Key, r.Index)
			if exit == 0 {
				exit = 2
			}
			continue
		}
		fmt.Printf("VIOLATION property=%s replay=%s\n", propID, path)
		fmt.Printf("  clause=%s key=%s runs=%d index=%d\n  %s\n", r.Clause, r.Key, a.violCount[k], r.Index, firstLines(r.Detail, 12))
		exit = 1
	}
	for _, l := range knownHit {
		fmt.Println(l)
	}
	// findings listed as known but not observed in this batch are still listed (they are known)
	for _, f := range known {
		if f.Property == propID && f.Status == "known" {
			seen := false
			for _, l := range knownHit {
				if strings.Contains(l, "key="+f.Key+",") {
					seen = true
				}
			}
			if !seen {
				fmt.Printf("KNOWN-FINDING: property=%s %s [key=%s, not hit in this batch]\n", propID, f.What, f.Key)
			}
		}
	}
	if len(a.harness) > 0 {
		for i, h := range a.harness {
			if i < 4 {
				fmt.Printf("HARNESS index=%d outcome=%s %s\n", h.Index, h.Outcome, firstLines(h.Detail, 8))
			}
		}
		if exit != 1 {
			exit = 2
		}
	}
	if detBad > 0 && exit == 0 {
		exit = 2
	}
	wall := time.Since(startWall).Seconds()
	writeEvidence(prop, tier, base, a, wall, newViol, detChecked, detBad, workers)
	fmt.Printf("runs=%d outcomes=%v distinct=%d nontrivial=%d wall=%.1fs exit=%d\n", a.results, a.outcomes, len(a.digests), len(a.nontrivial), wall, exit)
	return exit
}

func firstLines(s string, n int) string {
	l := strings.Split(s, "\n")
	if len(l) > n {
		l = l[:n]
	}
	return strings.Join(l, "\n  ")
}

// runChoices re-executes a recorded choice list in a fresh worker process.
// For race-detector properties the execution is deterministic but the
// detector is not (its shadow memory keeps a bounded, randomly evicted access
// history): a report that does not recur is retried a few times.
func runChoices(prop *Prop, tier string, rf *replayFile, trace bool) *Result {
	n := 1
	if prop.OnStderr != nil {
		n = 6
	}
	var r *Result
	for i := 0; i < n; i++ {
		if prop.OnStderr != nil && i%2 == 1 {
			// what a sync.Pool hands to whom depends on which processor a goroutine
			// runs on: on one processor every goroutine of the run shares the pool's
			// local slot, as they mostly did in the long-lived worker that saw the report
			os.Setenv("GOMAXPROCS", "1")
		}
		r = runChoicesOnce(prop, tier, rf, trace)
		os.Unsetenv("GOMAXPROCS")
		if r != nil && r.Outcome == "violation" {
			break
		}
	}
	return r
}

func runChoicesOnce(prop *Prop, tier string, rf *replayFile, trace bool) *Result {
	tmp, err := os.CreateTemp("", "verif-replay-*.json")
	if err != nil {
		return nil
	}
	defer os.Remove(tmp.Name())
	b, _ := json.Marshal(rf)
	tmp.Write(b)
	tmp.Close()
	bin := os.Args[0]
	if rf.Flavor == "alt" && os.Getenv("VERIF_WORKER_ALT") != "" {
		bin = os.Getenv("VERIF_WORKER_ALT")
	}
	cmd := exec.Command(bin, "-test.run=^TestWorker$", "-test.timeout=0")
	if kb := os.Getenv("VERIF_ULIMIT_KB"); kb != "" {
		cmd = exec.Command("bash", "-c", "ulimit -v "+kb+"; exec \"$0\" \"$@\"", bin, "-test.run=^TestWorker$", "-test.timeout=0")
	}
	cmd.Env = append(os.Environ(), "VERIF_MODE=replay", "VERIF_PROP="+prop.ID, "VERIF_TIER="+tier, "VERIF_REPLAY="+tmp.Name())
	if trace {
		cmd.Env = append(cmd.Env, "VERIF_TRACE=1")
	}
	wr := runWorker(cmd, 90*time.Second)
	if prop.OnStderr != nil {
		prop.OnStderr(wr.stderr, wr.results, func(string) {})
	}
	if prop.Diff && len(wr.results) == 1 {
		cmd2 := exec.Command(os.Getenv("VERIF_WORKER_PUREGO"), "-test.run=^TestWorker$", "-test.timeout=0")
		cmd2.Env = cmd.Env
		if o := runWorker(cmd2, 90*time.Second); len(o.results) == 1 {
			diffTranscripts(wr.results[0], o.results[0])
		}
	}
	if len(wr.results) == 1 {
		return wr.results[0]
	}
	if wr.died != nil {
		d := wr.died
		d.Prop = prop.ID
		if prop.OnDeath != nil {
			prop.OnDeath(d)
		}
		return d
	}
	return nil
}

func sameViolation(r *Result, clause, key string) bool {
	return r != nil && r.Outcome == "violation" && r.Clause == clause && r.Key == key
}

// shrinkAndSave minimises the choice list while the same violation class
// recurs, writes the replay file and verifies it in a fresh process.
func shrinkAndSave(prop *Prop, tier string, base uint64, r *Result) (string, bool) {
	rf := &replayFile{Property: prop.ID, Tier: tier, BaseSeed: base, Index: r.Index, RunSeed: r.Seed,
		Flavor: os.Getenv("VERIF_FLAVOR"), Choices: append([]uint64(nil), r.Choices...), Clause: r.Clause, Key: r.Key, OrigLen: len(r.Choices)}
	if rf.Choices == nil {
		rf.Choices = []uint64{}
	}
	if r.Alt {
		rf.Flavor = "alt"
	}
	if len(r.Choices) == 0 && r.Clause == "process-died" {
		// the worker died before reporting what it had drawn: run the case again
		// from its seed with the draws logged as they happen
		f, err := os.CreateTemp("", "verif-choices-*.txt")
		if err == nil {
			f.Close()
			defer os.Remove(f.Name())
			os.Setenv("VERIF_CHOICES_OUT", f.Name())
			c := *rf
			c.FromSeed = true
			_ = runChoices(prop, tier, &c, false)
			os.Unsetenv("VERIF_CHOICES_OUT")
			if b, err := os.ReadFile(f.Name()); err == nil {
				for _, l := range strings.Fields(string(b)) {
					if v, err := strconv.ParseUint(l, 10, 64); err == nil {
						rf.Choices = append(rf.Choices, v)
					}
				}
			}
			r.Choices = append([]uint64(nil), rf.Choices...)
			rf.OrigLen = len(rf.Choices)
		}
	}
	// first: does it reproduce at all?
	rr := runChoices(prop, tier, rf, false)
	if !sameViolation(rr, r.Clause, r.Key) {
		return "", false
	}
	budget := envInt("VERIF_SHRINK_RUNS", 300)
	deadline := time.Now().Add(time.Duration(envInt("VERIF_SHRINK_S", 60)) * time.Second)
	runs := 0
	try := func(cand []uint64) bool {
		if runs >= budget || time.Now().After(deadline) {
			return false
		}
		runs++
		c := *rf
		c.Choices = cand
		return sameViolation(runChoices(prop, tier, &c, false), r.Clause, r.Key)
	}
	cur := rf.Choices
	// 1. shortest prefix (everything after it reads as zero)
	lo, hi := 0, len(cur)
	for lo < hi {
		mid := (lo + hi) / 2
		if try(cur[:mid]) {
			hi = mid
		} else {
			lo = mid + 1
		}
	}
	if hi < len(cur) && try(cur[:hi]) {
		cur = cur[:hi]
	}
	// 2. delete chunks
	for size := len(cur) / 2; size >= 1; size /= 2 {
		for i := 0; i+size <= len(cur); {
			cand := append(append([]uint64{}, cur[:i]...), cur[i+size:]...)
			if try(cand) {
				cur = cand
			} else {
				i += size
			}
		}
		if runs >= budget {
			break
		}
	}
	// 3. zero, then halve individual values
	for i := range cur {
		if cur[i] == 0 {
			continue
		}
		cand := append([]uint64{}, cur...)
		cand[i] = 0
		if try(cand) {
			cur = cand
			continue
		}
		for v := cur[i] / 2; v > 0; v /= 2 {
			cand[i] = v
			if try(cand) {
				cur = append([]uint64{}, cand...)
			} else {
				break
			}
		}
	}
	// drop trailing zeros
	for len(cur) > 0 && cur[len(cur)-1] == 0 {
		cur = cur[:len(cur)-1]
	}
	rf.Choices = cur
	if rf.Choices == nil {
		rf.Choices = []uint64{}
	}
	rf.Minimised = true
	rf.ShrinkRuns = runs
	final := runChoices(prop, tier, rf, true)
	if !sameViolation(final, r.Clause, r.Key) {
		// fall back to the unminimised list, which did reproduce
		rf.Choices = r.Choices
		rf.Minimised = false
		final = runChoices(prop, tier, rf, true)
		if !sameViolation(final, r.Clause, r.Key) {
			return "", false
		}
	}
	rf.Detail = final.Detail
	rf.Digest = final.Digest
	rf.Trace = final.Trace
	rf.Sample = final.Sample
	dir := filepath.Join(outDir(), "replays")
	_ = os.MkdirAll(dir, 0o755)
	name := fmt.Sprintf("%s-%d-%016x.json", prop.ID, base, choice.HashString(r.Clause+"|"+r.Key))
	path := filepath.Join(dir, name)
	b, _ := json.MarshalIndent(rf, "", " ")
	if err := os.WriteFile(path, b, 0o644); err != nil {
		return "", false
	}
	return path, true
}

func replayMain(prop *Prop, path string) int {
	b, err := os.ReadFile(path)
	if err != nil {
		fmt.Fprintln(os.Stderr, err)
		return 2
	}
	var rf replayFile
	if err := json.Unmarshal(b, &rf); err != nil {
		fmt.Fprintln(os.Stderr, err)
		return 2
	}
	tier := rf.Tier
	if tier == "" {
		tier = "quick"
	}
	r := runChoices(prop, tier, &rf, true)
	if r == nil {
		fmt.Println("replay: worker produced no result")
		return 2
	}
	fmt.Printf("replay: outcome=%s clause=%s key=%s digest=%s (recorded clause=%s key=%s digest=%s)\n", r.Outcome, r.Clause, r.Key, r.Digest, rf.Clause, rf.Key, rf.Digest)
	if r.Outcome == "violation" {
		fmt.Printf("  %s\n", firstLines(r.Detail, 40))
		for _, l := range r.Trace {
			fmt.Println("   ", l)
		}
		if r.Clause == rf.Clause && r.Key == rf.Key {
			if r.Digest != rf.Digest {
				fmt.Println("replay: same violation but a different schedule digest (nondeterminism in the machinery)")
				return 2
			}
			fmt.Printf("VIOLATION property=%s replay=%s\n", prop.ID, path)
			return 1
		}
		fmt.Printf("VIOLATION property=%s replay=%s\n", prop.ID, path)
		return 1
	}
	fmt.Println("replay: no violation on this tree")
	return 0
}

func componentsOf(prop *Prop) map[string]string {
	if prop.Engine == "B" && prop.ID != "C05" && prop.ID != "C07" {
		return map[string]string{
			"proto, compress":                  "real code, unmodified (C06: row and string caps lowered in the scratch copy)",
			"lz4, zstd, city":                  "real code",
			"io.Reader / io.Writer under them": "simulated (simio.FaultyReader / FaultySink: segmentation, short reads, cut, reset, altered bytes, failing and short writes)",
			"scheduler, clock, network":        "none: these surfaces are single-threaded and read no clock",
			"reference model / codec":          "harness code (refproto, list-of-values and pending-bytes models)",
			"toolchain":                        runtime.Version(),
		}
	}
	m := map[string]string{
		"ch, chpool":              "real code, yields woven into a scratch copy at check time (selects rewritten so that the simulator picks among ready cases)",
		"proto, compress, otelch": "real code, unmodified",
		"puddle, errgroup, context, zap, otel, lz4, zstd, city, uuid": "real code (uuid with a seeded source)",
		"goroutine scheduling":   "seeded scheduler: one goroutine released per decision",
		"clock and timers":       "testing/synctest fake clock",
		"TCP connection, dialer": "simulated (simnet)",
		"ClickHouse server":      "scripted reference server over the independent codec refproto",
		"toolchain":              runtime.Version(),
	}
	if prop.Engine == "B" {
		m["note"] = "most cases of this check are engine-B stream histories (no scheduler); one family runs a real client in the simulator"
	}
	return m
}

func writeEvidence(prop *Prop, tier string, base uint64, a *agg, wall float64, viol, detChecked, detBad, workers int) {
	dn := len(a.nontrivial)
	samples := a.samples
	if len(samples) == 0 {
		samples = []any{map[string]any{"note": "no sample recorded"}}
	}
	cov := map[string]any{
		"evaluations":                a.evals,
		"cases":                      a.results,
		"distinct_nontrivial":        dn,
		"rule":                       prop.Rule,
		"samples":                    samples,
		"distinct_digests":           len(a.digests),
		"outcomes":                   a.outcomes,
		"faults_fired":               a.fired,
		"probes":                     a.probes,
		"config_cells":               a.cells,
		"decisions_total":            a.steps,
		"context_switches":           a.switches,
		"simulated_time_s":           float64(a.simMs) / 1000,
		"runs_per_hour":              int(float64(a.results) / wall * 3600),
		"max_yield_sites_in_one_run": a.sitesMax,
		"max_site_pairs_in_one_run":  a.pairsMax,
		"determinism_spot_check":     map[string]int{"runs_repeated_in_fresh_process": detChecked, "mismatches": detBad},
		"workers":                    workers,
		"components":                 componentsOf(prop),
	}
	if len(a.siteSet) > 0 {
		cov["yield_sites_reached"] = len(a.siteSet)
		cov["ordered_site_pairs_seen"] = len(a.pairSet)
		if b, err := os.ReadFile(os.Getenv("VERIF_SITES_FILE")); err == nil {
			cov["yield_sites_woven"] = len(strings.Split(strings.TrimSpace(string(b)), "\n"))
			// which statements of ch/chpool no run of this batch reached: the blind
			// spots of the workload, kept beside the evidence (coverage/<id>.unreached)
			var un []string
			for _, l := range strings.Split(strings.TrimSpace(string(b)), "\n") {
				if _, ok := a.siteSet[l]; !ok {
					un = append(un, l)
				}
			}
			cdir := filepath.Join(outDir(), "coverage")
			_ = os.MkdirAll(cdir, 0o755)
			_ = os.WriteFile(filepath.Join(cdir, prop.ID+"."+tier+".unreached"), []byte(strings.Join(un, "\n")+"\n"), 0o644)
		}
	}
	ev := map[string]any{
		"property_id": prop.ID,
		"tier":        tier,
		"seed":        base,
		"level":       prop.Level,
		"coverage":    cov,
		"assumptions": append([]string{"library compiled with " + runtime.Version() + " (repository pins go1.24.1)"}, prop.Assume...),
		"wall_s":      wall,
		"violations":  viol,
	}
	dir := filepath.Join(outDir(), "evidence")
	_ = os.MkdirAll(dir, 0o755)
	b, _ := json.MarshalIndent(ev, "", " ")
	_ = os.WriteFile(filepath.Join(dir, prop.ID+".json"), b, 0o644)
}
