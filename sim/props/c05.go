package props

import (
	"bytes"
	"context"
	"encoding/binary"
	"errors"
	"fmt"
	"github.com/klauspost/compress/zstd"
	"hash/fnv"
	"io"
	"math/rand/v2"
	"os"
	"runtime"
	"testing"

	"github.com/ClickHouse/ch-go"
	"github.com/ClickHouse/ch-go/compress"
	"github.com/ClickHouse/ch-go/proto"
	"github.com/go-faster/city"

	"chgosim/choice"
	"chgosim/refproto"
	"chgosim/simio"
	"chgosim/simnet"
)

func init() {
	Register(&Prop{
		ID: "C05", Engine: "B", AltEvery: 4, Quick: 20000, Thorough: 150000, Level: "exploration",
		Rule: "each history = 1..6 frames produced by the real compress.Writer (payload lengths boundary-biased; compressible, incompressible, all-zero and position-tagged contents; None, LZ4, LZ4HC at every level incl. 0 and >12, ZSTD), read back through compress.Reader or proto.Reader with caller buffers of drawn sizes from a source that delivers drawn segments; fault-free histories must return exactly the payloads; faulty histories alter one byte at a drawn offset (for frames <= 512 bytes in the thorough tier: every offset x 3 masks), force size fields beyond the limits under a valid checksum, or cut the stream, and keep reading after the first error; oracle = an independent frame parser that knows each frame's extent and integrity; distinct = distinct (stream, fault, read plan) digests; non-trivial = a fault was injected or more than one frame / more than one segment",
		Run:  runC05,
	})
}

var c05Methods = []compress.Method{compress.None, compress.LZ4, compress.LZ4HC, compress.ZSTD}

func c05Payload(c *choice.Stream) []byte {
	var n int
	switch c.Weighted("pl.len", 2, 6, 4, 2, 1) {
	case 0:
		n = 0
	case 1:
		n = 1 + c.Draw("pl.small", 64)
	case 2:
		n = c.Draw("pl.mid", 4097)
	case 3:
		n = c.Pick("pl.edge", 1, 15, 16, 255, 256, 4095, 4096, 65535, 65536, 131071, 131072)
	default:
		n = 200000 + c.Draw("pl.big", 4000000)
	}
	b := make([]byte, n)
	switch c.Weighted("pl.kind", 3, 3, 1, 3) {
	case 0: // compressible
		for i := range b {
			b[i] = "abcabcabd"[i%9]
		}
	case 1: // incompressible
		r := c.Sub("pl.rand")
		for i := 0; i+8 <= n; i += 8 {
			binary.LittleEndian.PutUint64(b[i:], r.Uint64())
		}
	case 2: // zeros
	default: // position-tagged
		for i := range b {
			b[i] = byte(i) ^ byte(i>>8) ^ 0x5a
		}
	}
	return b
}

type c05Frame struct {
	off, end int
	payload  []byte
}

// runC05Client: a compressed Data packet of a server response is altered in
// one byte on its way to a real client; the query must fail with the exported
// corruption error carrying both checksums (length fields intact), and no
// callback may see data of the damaged block.
func runC05Client(t *testing.T, c *choice.Stream, r *Result, opt RunOpt) {
	Bubble(t, c, r, opt, func(e *Env) func() {
		cf := DrawConf(c)
		cf.Comp = []ch.Compression{ch.CompressionLZ4, ch.CompressionLZ4HC, ch.CompressionZSTD, ch.CompressionNone}[c.Draw("comp.on", 4)]
		rs := drawResponse(c, cf, 5)
		// make sure there is a data block with rows
		rs.packets = append([]*SPacket{{Kind: "data", Block: DrawBlock(c, rs.cols, c.Range("rows", 1, 6))}}, rs.packets...)
		var stream []byte
		target, tOff, tEnd := -1, 0, 0
		for i, p := range rs.packets {
			b := p.Encode(cf)
			if p.Kind == "data" && target < 0 && len(p.Block.Cols) > 0 {
				target, tOff, tEnd = i, len(stream), len(stream)+len(b)
			}
			stream = append(stream, b...)
		}
		// the first frame of that packet starts after the packet code and the empty table name
		fOff := tOff + 2
		fr, err := refproto.DecodeFrame(&refproto.R{B: stream[fOff:tEnd]})
		if err != nil || !fr.ChecksumOK {
			panic(fmt.Sprintf("reference cannot re-read its own frame: %v", err))
		}
		o := c.Draw("flip.off", fr.WireLen)
		mask := []byte{0x01, 0x80, 0xff}[c.Draw("flip.mask", 3)]
		lengthsIntact := !(o >= 17 && o < 25)
		damaged := append([]byte(nil), stream...)
		damaged[fOff+o] ^= mask
		nop := func(*refproto.ClientPacket) []byte { return nil }
		script := cf.HandshakeSteps()
		script = append(script, simnet.Step{Label: "query", OnPacket: nop}, simnet.Step{Label: "ext-end", OnPacket: nop}, simnet.Step{Label: "damaged-response", Send: damaged, Fin: true})
		e.Sim.DrawStrategy()
		e.Sim.StallProb = 0
		e.Sim.MaxSteps = 400000
		e.W.DeliverMode = c.Weighted("deliver", 3, 1, 3)
		srv := simnet.NewServer(cf.ServerRev, script)
		conn := e.W.NewConn(srv)
		want, _, _ := rs.expected()
		r.Cell = "client"
		r.NonTriv = true
		r.Fire("flip")
		r.Sample = map[string]any{"family": "corrupted Data packet through the client", "compression": cf.Comp.String(), "frame_bytes": fr.WireLen, "flip_offset_in_frame": o, "mask": mask, "frame_chunk": cf.FrameChunk}
		return func() {
			cl, err := ch.Connect(context.Background(), conn, cf.Options())
			if err != nil {
				r.Harness("fault-free handshake failed: %v", err)
				return
			}
			derr := cl.Do(context.Background(), rs.query)
			if derr == nil {
				r.Violate("corruption-accepted", "corruption-accepted:client", "byte %d of a compressed Data frame (%d bytes) was altered with mask %#x and Do returned nil", o, fr.WireLen, mask)
				return
			}
			if lengthsIntact {
				var ce *ch.CorruptedDataErr
				if !errors.As(derr, &ce) {
					r.Violate("not-a-corruption-error", "not-a-corruption-error:client", "frame altered at offset %d (length fields intact) but Do's error carries no ch.CorruptedDataErr: %v", o, derr)
					return
				}
				d := damaged[fOff : fOff+fr.WireLen]
				stored := city.U128{Low: binary.LittleEndian.Uint64(d[0:]), High: binary.LittleEndian.Uint64(d[8:])}
				if ce.Reference != stored || ce.Actual != city.CH128(d[16:]) {
					r.Violate("wrong-checksums", "wrong-checksums:client", "ch.CorruptedDataErr carries reference %x / actual %x, the frame stores %x and hashes to %x", ce.Reference, ce.Actual, stored, city.CH128(d[16:]))
					return
				}
			}
			// nothing of the damaged block may have reached a callback
			got := rs.rec.Events
			for i := range got {
				if i >= len(want) || got[i] != want[i] {
					r.Violate("damaged-data-delivered", "damaged-data-delivered:client", "callback event %d is not what the undamaged stream delivers: %.400s", i, got[i])
					return
				}
			}
			idx := 0
			for _, p := range rs.packets[:target] {
				_ = p
				idx++
			}
			_ = idx
		}
	})
}

func runC05(t *testing.T, c *choice.Stream, r *Result, opt RunOpt) {
	if c.Bool("family.client", 1, 12) {
		runC05Client(t, c, r, opt)
		return
	}
	// ---- build the stream with the real writer ----
	nf := c.Weighted("frames", 5, 3, 2, 1, 1, 1) + 1
	var stream []byte
	var frames []c05Frame
	var meths []string
	writers := map[string]*compress.Writer{}
	var lastWK string
	var lastM compress.Method
	var lastLvl int
	for i := 0; i < nf; i++ {
		m := c05Methods[c.Draw("method", len(c05Methods))]
		lvl := 0
		if m == compress.LZ4HC {
			lvl = c.Pick("level", 0, 1, 2, 3, 4, 5, 6, 7, 8, 9, 10, 11, 12, 13, 100)
		}
		// a connection keeps one compressor and uses it for every frame: writers are
		// reused within a history (with whatever their buffers have grown to)
		wk := fmt.Sprintf("%v/%d", m, lvl)
		if i > 0 && c.Bool("method.same", 1, 2) {
			wk, m, lvl = lastWK, lastM, lastLvl
		}
		w := writers[wk]
		if w == nil || c.Bool("writer.fresh", 1, 5) {
			w = compress.NewWriter(compress.Level(lvl), m)
			writers[wk] = w
		}
		lastWK, lastM, lastLvl = wk, m, lvl
		p := c05Payload(c)
		if len(p) > 1<<20 && i > 0 {
			p = p[:1<<16]
		}
		if i == 0 && nf == 1 && c.Bool("payload.limit", 1, 2500) {
			// the documented ceiling itself: a block of exactly (and just under) 128 MiB
			m, lvl = compress.None, 0
			w = compress.NewWriter(0, m)
			p = make([]byte, (128<<20)-c.Pick("payload.limit.minus", 0, 1, 8, 9, 10))
			for j := 0; j < len(p); j += 4099 {
				p[j] = byte(j >> 7)
			}
			r.Probe("payload_at_the_limit")
		}
		if i > 0 && c.Bool("payload.grow", 1, 4) {
			// slightly longer than the previous payload and incompressible: the
			// compressor's buffers are just too small for it
			p = c.Bytes("payload.grow.bytes", len(frames[i-1].payload)+1+c.Draw("payload.grow.by", 24))
		}
		if m == compress.ZSTD && c.Bool("foreign", 1, 4) {
			// a frame of another writer of the format (a server, at whatever level
			// and window it was configured with): valid, but not what the library's
			// own encoder would have produced
			if i == 0 && nf == 1 && c.Bool("foreign.big", 1, 6) {
				p = make([]byte, c.Pick("foreign.big.n", 8<<20+1, 9<<20, 20<<20))
				for j := range p {
					p[j] = byte(j>>9) ^ byte(j*7)
				}
			}
			lv := []zstd.EncoderLevel{zstd.SpeedFastest, zstd.SpeedDefault, zstd.SpeedBetterCompression}[c.Weighted("foreign.level", 3, 3, 1)]
			opts := []zstd.EOption{zstd.WithEncoderLevel(lv)}
			win := c.Pick("foreign.window", 0, 0, 1<<10, 1<<16, 1<<20, 1<<23, 1<<24, 1<<25, 1<<27)
			if win > 0 {
				opts = append(opts, zstd.WithWindowSize(win))
			}
			single := c.Bool("foreign.single", 1, 3)
			if single {
				opts = append(opts, zstd.WithSingleSegment(true))
			}
			fb, err := refproto.EncodeFrameZstd(p, opts...)
			if err != nil {
				panic(err)
			}
			frames = append(frames, c05Frame{off: len(stream), end: len(stream) + len(fb), payload: p})
			stream = append(stream, fb...)
			meths = append(meths, fmt.Sprintf("foreign-zstd/%v/w%d/s%v/%dB", lv, win, single, len(p)))
			r.Probe("foreign_zstd_frame")
			if len(p) > 8<<20 {
				r.Probe(fmt.Sprintf("foreign_zstd_frame_over_8MiB/w%d/s%v", win, single))
			}
			continue
		}
		if err := w.Compress(p); err != nil {
			r.Violate("compress-failed", "compress-failed", "Compress of %d bytes with %v failed: %v", len(p), m, err)
			return
		}
		frames = append(frames, c05Frame{off: len(stream), end: len(stream) + len(w.Data), payload: p})
		stream = append(stream, w.Data...)
		meths = append(meths, fmt.Sprintf("%v/%d/%dB", m, lvl, len(p)))
	}
	// the independent parser must agree that these are intact frames
	{
		rr := &refproto.R{B: stream}
		for i := range frames {
			f, err := refproto.DecodeFrame(rr)
			if err != nil || !f.ChecksumOK || !bytes.Equal(f.Payload, frames[i].payload) || rr.Pos != frames[i].end {
				r.Violate("writer-frame", "writer-frame", "frame %d (%s) written by compress.Writer is not a valid frame for the reference decoder: err=%v", i, meths[i], err)
				return
			}
		}
	}
	// ---- fault and read plan: drawn once per history ----
	fault := []string{"none", "flip", "sizes", "cut"}[c.Weighted("fault", 3, 5, 1, 1)]
	dmgDraw := c.Draw("dmg.frame", nf)
	flipHeader := c.Bool("flip.header", 1, 3)
	flipHoff := c.Draw("flip.hoff", 25)
	flipAny := c.Draw("flip.off", 1<<30)
	flipMask := []byte{0x01, 0x80, 0xff, 0x10}[c.Draw("flip.mask", 4)]
	sizesWhich := c.Draw("sizes.which", 3)
	sizesRaw := []uint32{1<<27 + 10, 1 << 30, 0xffffffff}[c.Draw("sizes.raw", 3)]
	sizesData := []uint32{1<<27 + 1, 1 << 30, 0xffffffff}[c.Draw("sizes.data", 3)]
	sizesInner := c.Bool("sizes.inner", 1, 3)
	sizesNone := c.Pick("sizes.none", 0, 0, 1, 8, 4096, -1, -8, -64)
	sizesInnerFCS := []uint64{1 << 28, 1 << 30, 3 << 30}[c.Draw("sizes.inner.fcs", 3)]
	cutDraw := c.Draw("cut.off", 1<<30)
	segSeed := uint64(c.Draw("src.seg", 1<<31-1))
	srcMaxSeg := c.Pick("src.maxseg", 1, 7, 64, 4096, 1<<20)
	srcEnd := c.Draw("src.end", 4)
	srcWhole := c.Bool("src.whole", 1, 3)
	useProto := c.Bool("via.proto", 1, 3)
	bufMax := c.Pick("buf.max", 1, 3, 16, 100, 4096, 1<<17)
	bufSeed := uint64(c.Draw("buf.sizes", 1<<31-1))
	extraReads := c.Range("reads.after", 1, 5)
	zeroReads := c.Bool("reads.zero", 1, 4)
	if fault == "sizes" && bufMax < 4096 {
		bufMax = 4096 // every read is bracketed by a memory-statistics snapshot in this configuration
	}
	h := fnv.New64a()
	// one evaluation: the given byte of the stream altered with the given mask (flip fault), or the drawn fault
	eval := func(flipOff int, mask byte) {
		data := append([]byte(nil), stream...)
		dmg := -1 // index of the damaged frame
		lengthsIntact := true
		switch fault {
		case "flip":
			for i, f := range frames {
				if flipOff >= f.off && flipOff < f.end {
					dmg = i
				}
			}
			fr := frames[dmg]
			data[flipOff] ^= mask
			if o := flipOff - fr.off; o >= 17 && o < 25 {
				lengthsIntact = false
			}
		case "sizes":
			// a frame whose size fields exceed the documented limits, under a valid checksum
			dmg = nf
			hdr := make([]byte, 25)
			hdr[16] = 0x82
			which := sizesWhich
			raw, ds := uint32(9+16), uint32(16)
			if which != 1 {
				raw = sizesRaw
			}
			if which != 0 {
				ds = sizesData
			}
			binary.LittleEndian.PutUint32(hdr[17:], raw)
			binary.LittleEndian.PutUint32(hdr[21:], ds)
			body := make([]byte, 16)
			if sizesInner {
				// the envelope is modest and honest; the size that is beyond every limit
				// is the content size the ZSTD frame inside declares for itself
				body = []byte{0x28, 0xB5, 0x2F, 0xFD, 0xC0, 0x00} // magic, descriptor: 8-byte content size, window descriptor follows; 1 KiB window
				body = binary.LittleEndian.AppendUint64(body, sizesInnerFCS)
				body = append(body, 0x01, 0x00, 0x00) // last block, raw, empty
				hdr[16] = 0x90
				binary.LittleEndian.PutUint32(hdr[17:], uint32(9+len(body)))
				binary.LittleEndian.PutUint32(hdr[21:], 16)
			}
			if sizesNone != 0 && !sizesInner {
				// method None, sizes within every limit, valid checksum - but the data
				// size does not agree with the length of the payload that follows
				body = c.Bytes("sizes.none.body", 64)
				hdr[16] = 0x02
				binary.LittleEndian.PutUint32(hdr[17:], uint32(9+len(body)))
				binary.LittleEndian.PutUint32(hdr[21:], uint32(len(body)+sizesNone))
			}
			h := city.CH128(append(append([]byte{}, hdr[16:]...), body...))
			binary.LittleEndian.PutUint64(hdr[0:], h.Low)
			binary.LittleEndian.PutUint64(hdr[8:], h.High)
			data = append(append(data, hdr...), body...)
		case "cut":
			dmg = dmgDraw
			fr := frames[dmg]
			data = data[:fr.off+cutDraw%(fr.end-fr.off)]
		}
		// ---- read plan ----
		src := &simio.FaultyReader{Data: data, Rng: rand.New(rand.NewPCG(segSeed, 1)), MaxSeg: srcMaxSeg, End: srcEnd}
		if srcWhole {
			src.Rng = nil
		}
		var rd io.Reader
		if useProto {
			pr := proto.NewReader(src)
			pr.EnableCompression()
			rd = pr
		} else {
			rd = compress.NewReader(src)
		}
		bufRng := rand.New(rand.NewPCG(bufSeed, 2))
		var want []byte
		for i, f := range frames {
			if dmg >= 0 && i >= dmg && fault != "sizes" {
				break
			}
			want = append(want, f.payload...)
		}
		var got, gotAfter []byte
		var firstErr error
		errsAfter := 0
		var ms0, ms1 runtime.MemStats
		maxReads := len(want)/max(1, bufMax/2) + 64
		extra := extraReads
		buf := make([]byte, bufMax)
		for i := 0; i < maxReads*4+1000; i++ {
			b := buf[:1+bufRng.IntN(bufMax)]
			if zeroReads && bufRng.IntN(8) == 0 {
				b = buf[:0] // io.Reader allows a zero-length read; it takes nothing
			}
			if fault == "sizes" && firstErr == nil {
				runtime.ReadMemStats(&ms0)
			}
			n, err := rd.Read(b)
			if os.Getenv("VERIF_C05_DEBUG") != "" {
				fmt.Fprintf(os.Stderr, "read(%d) = %d, %v; source served %d of %d\n", len(b), n, err, src.Served, len(data))
			}
			if fault == "sizes" && err != nil && firstErr == nil {
				runtime.ReadMemStats(&ms1)
			}
			if n < 0 || n > len(b) {
				r.Violate("read-contract", "read-contract", "Read returned n=%d for a buffer of %d", n, len(b))
				return
			}
			if firstErr == nil {
				got = append(got, b[:n]...)
			} else {
				gotAfter = append(gotAfter, b[:n]...)
			}
			if err != nil {
				if firstErr == nil {
					firstErr = err
				} else {
					errsAfter++
				}
				extra--
				if extra < 0 {
					break
				}
			} else if n == 0 && len(b) > 0 {
				// a reader may return (0, nil) but not forever
				extra--
				if extra < -50 {
					break
				}
			}
		}
		h.Write(data)
		fmt.Fprintf(h, "|%s|%d|%d|%v|%d", fault, flipOff, bufMax, useProto, src.MaxSeg)
		r.Digest = fmt.Sprintf("%016x", h.Sum64())
		r.NonTriv = r.NonTriv || fault != "none" || nf > 1 || src.Reads > 1
		r.Cell = fault
		if fault != "none" {
			r.Fire(fault)
		}
		r.Sample = map[string]any{"frames": meths, "fault": fault, "flip_offset_in_stream": flipOff, "mask": mask, "damaged_frame": dmg, "buffer_max": bufMax, "source_max_segment": src.MaxSeg, "via_proto_reader": useProto, "stream_bytes": len(data)}

		// ---- oracle ----
		if !bytes.Equal(got, want) {
			i := 0
			for i < len(got) && i < len(want) && got[i] == want[i] {
				i++
			}
			key := "payload:" + fault
			if len(got) > len(want) && bytes.Equal(got[:len(want)], want) {
				key = "extra-bytes:" + fault
			}
			r.Violate("wrong-bytes", key, "before any error the reader handed out %d bytes, the intact frames in front of the fault hold %d; first difference at %d (frames %v, fault %s at %d)", len(got), len(want), i, meths, fault, flipOff)
			return
		}
		switch fault {
		case "none":
			if firstErr == nil || !(errors.Is(firstErr, io.EOF) || errors.Is(firstErr, io.ErrUnexpectedEOF) || errors.Is(firstErr, simio.ErrReset)) {
				r.Violate("end-of-stream", "end-of-stream", "after the last frame the reader returned %v, want the source's end-of-stream error", firstErr)
			}
		case "flip":
			if firstErr == nil {
				r.Violate("corruption-accepted", "corruption-accepted", "byte %d of the stream (offset %d in frame %d, %s) was altered with mask %#x and no read failed", flipOff, flipOff-frames[dmg].off, dmg, meths[dmg], mask)
				return
			}
			if lengthsIntact {
				var ce *compress.CorruptedDataErr
				if !errors.As(firstErr, &ce) {
					r.Violate("not-a-corruption-error", "not-a-corruption-error", "frame %d altered at offset %d (length fields intact) but the error carries no CorruptedDataErr: %v", dmg, flipOff-frames[dmg].off, firstErr)
					return
				}
				fr := data[frames[dmg].off:frames[dmg].end]
				stored := city.U128{Low: binary.LittleEndian.Uint64(fr[0:]), High: binary.LittleEndian.Uint64(fr[8:])}
				actual := city.CH128(fr[16:])
				if ce.Reference != stored || ce.Actual != actual {
					r.Violate("wrong-checksums", "wrong-checksums", "CorruptedDataErr carries reference %x/actual %x, the frame stores %x and hashes to %x", ce.Reference, ce.Actual, stored, actual)
					return
				}
			}
		case "sizes":
			if firstErr == nil {
				r.Violate("limits-not-enforced", "limits-not-enforced", "a frame with size fields beyond the limits was accepted")
				return
			}
			if grew := ms1.TotalAlloc - ms0.TotalAlloc; grew > 1<<20 {
				r.Violate("allocated-before-rejecting", "allocated-before-rejecting", "rejecting out-of-limit size fields allocated %d bytes", grew)
				return
			}
		case "cut":
			if firstErr == nil {
				r.Violate("truncation-accepted", "truncation-accepted", "the stream was cut inside frame %d and no read failed", dmg)
				return
			}
		}
		// reads that follow a failure may only hand out bytes of frames that verify
		if len(gotAfter) > 0 {
			// With damaged length fields the reader's position is arbitrary: it may
			// skip intact frames and happen to land on a later frame boundary. What
			// it hands out must still be whole payloads of intact frames behind the
			// fault, in stream order (the last one possibly partial).
			pos := 0
			if fault == "flip" {
				// payloads may share prefixes, so try every subsequence of the frames behind the fault
				cand := frames[dmg+1:]
				var match func(p, fi int) bool
				match = func(p, fi int) bool {
					if p > pos {
						pos = p
					}
					rest := gotAfter[p:]
					if len(rest) == 0 {
						return true
					}
					for i := fi; i < len(cand); i++ {
						pl := cand[i].payload
						if len(rest) >= len(pl) {
							if len(pl) > 0 && bytes.Equal(rest[:len(pl)], pl) && match(p+len(pl), i+1) {
								return true
							}
						} else if bytes.Equal(rest, pl[:len(rest)]) {
							pos = len(gotAfter)
							return true
						}
					}
					return false
				}
				if match(0, 0) {
					pos = len(gotAfter)
				}
			}
			if pos != len(gotAfter) {
				zero := true
				for _, b := range gotAfter {
					if b != 0 {
						zero = false
					}
				}
				r.Violate("bytes-after-failure", fmt.Sprintf("after-failure:%s:zero=%v", fault, zero), "after the first error (%v) further reads handed out %d bytes of which only the first %d are payloads of intact frames behind the fault (all zero: %v); frames %v, fault %s at stream offset %d, %d errors after the first", firstErr, len(gotAfter), pos, zero, meths, fault, flipOff, errsAfter)
			}
		}
	}
	if fault != "flip" {
		eval(-1, 0)
		return
	}
	// the drawn alteration
	fr := frames[dmgDraw]
	off := fr.off + flipAny%(fr.end-fr.off)
	if flipHeader {
		off = fr.off + flipHoff%min(25, fr.end-fr.off)
	}
	eval(off, flipMask)
	// every offset of the damaged frame x three masks, for small frames
	limit := 512
	if opt.Tier != "thorough" && (fr.end-fr.off > 64 || r.Index%16 != 0) {
		limit = 0 // quick tier: one in sixteen of the small-frame cases get the full enumeration
	}
	if fr.end-fr.off <= limit && r.Outcome != "violation" {
		n := 1
		for o := fr.off; o < fr.end && r.Outcome != "violation"; o++ {
			for _, m := range []byte{0x01, 0x80, 0xff} {
				eval(o, m)
				n++
			}
		}
		r.Evals = n
		r.Probe("every_offset_of_a_frame")
	}
}
