package props

import (
	"bytes"
	"chgosim/refproto"
	"fmt"
	"hash/fnv"
	"testing"

	"github.com/ClickHouse/ch-go/proto"

	"chgosim/choice"
	"chgosim/gen"
	"chgosim/simio"
)

func init() {
	Register(&Prop{
		ID: "C14", Engine: "B", AltEvery: 4, Quick: 20000, Thorough: 2000000, Level: "exploration",
		Rule: "case 0 enumerates every history of length <= 6 over {append 1 byte, append 100 bytes, append nothing, chain an empty slice, chain 3 bytes, chain 5000 bytes, flush} x {sink accepts everything, sink fails once after 2 bytes, sink writes short once after 2 bytes} (exhaustive); every other case is a drawn history of up to 60 operations (appends through the Put* family, chained slices, flushes) over a sink that fails or writes short at a drawn byte and then recovers, or the path equivalence of WriteColumn/WriteBlock against EncodeColumn/EncodeBlock for generated columns and blocks; oracle = pending-bytes model: a flush delivers exactly what was appended or chained since the previous flush (a prefix of it when the sink fails) and afterwards nothing older is ever written again; evaluations = histories; distinct = distinct history digests; non-trivial = histories with at least one flush after at least two operations",
		Run:  runC14,
	})
}

type c14Op struct {
	kind byte // 'a' append n tagged bytes, 'w' chain a slice of n tagged bytes, 'n' append+chain+append inside one callback, 'd' append to the writer's own buffer and chain, 'j' chain two neighbouring halves of one allocation with an append between, 'f' flush
	n    int
}

// c14Play runs one history against the pending-bytes model. It returns "" or
// a description of the first disagreement.
func c14Play(ops []c14Op, sink *simio.FaultySink) string {
	own := new(proto.Buffer)
	w := proto.NewWriter(sink, own)
	var pending []byte
	var chained [][]byte
	tag := byte(1)
	fill := func(n int) []byte {
		b := make([]byte, n)
		for i := range b {
			b[i] = tag
		}
		tag++
		if tag == 0 {
			tag = 1
		}
		return b
	}
	flush := func(i int) string {
		before := len(sink.Got)
		failedBefore := sink.Failed
		n, err := w.Flush()
		got := sink.Got[before:]
		if err == nil {
			if !bytes.Equal(got, pending) {
				return fmt.Sprintf("op %d: flush delivered %d bytes, %d were appended or chained since the previous flush (first difference at %d)", i, len(got), len(pending), firstDiff(got, pending))
			}
			if int(n) != len(pending) {
				return fmt.Sprintf("op %d: flush reported %d bytes, wrote %d", i, n, len(pending))
			}
		} else {
			if !sink.Failed || failedBefore && sink.FailAfter < 0 {
				return fmt.Sprintf("op %d: flush failed (%v) although the sink accepted everything", i, err)
			}
			if len(got) > len(pending) || !bytes.Equal(got, pending[:len(got)]) {
				return fmt.Sprintf("op %d: failed flush delivered %d bytes that are not a prefix of the %d pending ones", i, len(got), len(pending))
			}
		}
		// the caller may reuse its chained slices after the flush
		for _, s := range chained {
			for j := range s {
				s[j] = 0xEE
			}
		}
		chained = chained[:0]
		pending = pending[:0]
		return ""
	}
	for i, op := range ops {
		switch op.kind {
		case 'a':
			b := fill(op.n)
			w.ChainBuffer(func(buf *proto.Buffer) {
				switch {
				case len(b) == 1:
					buf.PutByte(b[0])
				case len(b) == 8:
					buf.PutRaw(b)
				default:
					buf.Buf = append(buf.Buf, b...)
				}
			})
			pending = append(pending, b...)
		case 'w':
			b := fill(op.n)
			w.ChainWrite(b)
			chained = append(chained, b)
			pending = append(pending, b...)
		case 'n':
			// a composite column: header bytes, a chained slice, trailer bytes, all
			// from inside one ChainBuffer callback
			a, b, c := fill(3), fill(op.n), fill(2)
			w.ChainBuffer(func(buf *proto.Buffer) {
				buf.Buf = append(buf.Buf, a...)
				w.ChainWrite(b)
				buf.Buf = append(buf.Buf, c...)
			})
			chained = append(chained, b)
			pending = append(append(append(pending, a...), b...), c...)
		case 'j':
			// two chained slices that are neighbouring parts of one allocation (a
			// batch cut in two), with appended bytes between them
			whole := fill(2 * op.n)
			a, b, m := whole[:op.n], whole[op.n:], fill(3)
			w.ChainWrite(a)
			w.ChainBuffer(func(buf *proto.Buffer) { buf.Buf = append(buf.Buf, m...) })
			w.ChainWrite(b)
			chained = append(chained, whole)
			pending = append(append(append(pending, a...), m...), b...)
		case 'd':
			// the caller appends to the buffer it gave the writer (the client encodes
			// its packets that way) and chains a slice after it
			a, b := fill(op.n), fill(4)
			own.Buf = append(own.Buf, a...)
			w.ChainWrite(b)
			chained = append(chained, b)
			pending = append(append(pending, a...), b...)
		case 'f':
			if d := flush(i); d != "" {
				return d
			}
		}
	}
	return flush(len(ops))
}

func firstDiff(a, b []byte) int {
	i := 0
	for i < len(a) && i < len(b) && a[i] == b[i] {
		i++
	}
	return i
}

func c14Sink(mode, at int) *simio.FaultySink {
	switch mode {
	case 1:
		return &simio.FaultySink{FailAfter: at, Recover: true}
	case 2:
		return &simio.FaultySink{FailAfter: at, Recover: true, Short: true}
	}
	return &simio.FaultySink{FailAfter: -1}
}

func runC14(t *testing.T, c *choice.Stream, r *Result, opt RunOpt) {
	h := fnv.New64a()
	defer func() { r.Digest = fmt.Sprintf("%016x", h.Sum64()) }()
	if r.Index == 0 {
		// exhaustive family
		alphabet := []c14Op{{'a', 1}, {'a', 100}, {'a', 0}, {'w', 0}, {'w', 3}, {'w', 5000}, {'f', 0}}
		count := 0
		var rec func(prefix []c14Op, depth int) bool
		rec = func(prefix []c14Op, depth int) bool {
			for mode := 0; mode < 3; mode++ {
				count++
				if d := c14Play(prefix, c14Sink(mode, 2)); d != "" {
					r.Violate("writer-model", "exhaustive", "history %v with sink mode %d: %s", prefix, mode, d)
					return false
				}
			}
			if depth == 6 {
				return true
			}
			for _, op := range alphabet {
				if !rec(append(prefix[:len(prefix):len(prefix)], op), depth+1) {
					return false
				}
			}
			return true
		}
		rec(nil, 0)
		c.Draw("exhaustive", 1)
		r.Evals = count
		r.NonTriv = true
		r.Cell = "exhaustive"
		r.Probe("exhaustive_histories_le6")
		r.Sample = map[string]any{"family": "every history of length <= 6 over a 7-symbol alphabet x 3 sink behaviours", "histories": count}
		fmt.Fprintf(h, "exhaustive")
		return
	}
	if c.Bool("family.path", 1, 4) {
		// path equivalence: the vectored path and the buffer path give the same bytes
		cols := DrawCols(c, "cols", 3, 2)
		rows := gen.DrawRows(c, "rows")
		if c.Bool("block.bigfixed", 1, 250) {
			// several columns of one fixed-width type, each more than a megabyte on
			// the wire: whatever a column writer borrows or shares is used twice
			// before the flush
			t := []string{"UUID", "Int64", "FixedString(16)", "Int256", "Float64", "IPv6"}[c.Draw("block.bigfixed.type", 6)]
			rt, err := refproto.ParseType(t)
			if err != nil {
				panic(err)
			}
			cols = nil
			for i := 0; i < c.Range("block.bigfixed.n", 2, 6); i++ {
				cols = append(cols, ColSpec{Name: fmt.Sprintf("c%d", i), Type: t, RT: rt})
			}
			rows = (1<<20)/rt.Size + c.Pick("block.bigfixed.plus", 0, 1, 4464)
			if rt.Size*rows < 1<<20 {
				rows = (1<<20)/rt.Size + 1
			}
		}
		rev := revMenu()[c.Draw("rev", len(revMenu()))]
		var input []proto.InputColumn
		vr := c.Sub("vals")
		for _, cs := range cols {
			col, err := gen.NewCol(cs.Type)
			if err != nil {
				panic(err)
			}
			if err := gen.Fill(col, cs.RT, gen.Values(vr, cs.RT, rows)); err != nil {
				panic(err)
			}
			input = append(input, proto.InputColumn{Name: cs.Name, Data: col})
		}
		blk := proto.Block{Columns: len(cols), Rows: rows, Info: proto.BlockInfo{BucketNum: -1}}
		var a proto.Buffer
		if err := blk.EncodeBlock(&a, rev, input); err != nil {
			r.Harness("EncodeBlock: %v", err)
			return
		}
		sink := &simio.FaultySink{FailAfter: -1}
		w := proto.NewWriter(sink, new(proto.Buffer))
		prefix := c.Bytes("prefix", c.Draw("prefix.n", 20))
		w.ChainBuffer(func(b *proto.Buffer) { b.Buf = append(b.Buf, prefix...) })
		if err := blk.WriteBlock(w, rev, input); err != nil {
			r.Harness("WriteBlock: %v", err)
			return
		}
		if _, err := w.Flush(); err != nil {
			r.Harness("Flush: %v", err)
			return
		}
		want := append(append([]byte{}, prefix...), a.Buf...)
		h.Write(want)
		r.Cell = "path-block"
		r.NonTriv = rows > 0
		r.Sample = map[string]any{"family": "WriteBlock vs EncodeBlock", "cols": colNames(cols), "rows": rows, "revision": rev, "bytes": len(want)}
		if !bytes.Equal(sink.Got, want) {
			r.Violate("path-equivalence", "path:block", "WriteBlock + Flush produced %d bytes, EncodeBlock %d; first difference at %d (columns %v, %d rows)", len(sink.Got), len(want), firstDiff(sink.Got, want), colNames(cols), rows)
			return
		}
		// the same Writer carries the next block of the stream as well: what the
		// first flush left behind must not leak into (or be cut out of) the second
		sink.Got = sink.Got[:0]
		if err := blk.WriteBlock(w, rev, input); err != nil {
			r.Harness("WriteBlock: %v", err)
			return
		}
		if _, err := w.Flush(); err != nil {
			r.Harness("Flush: %v", err)
			return
		}
		if !bytes.Equal(sink.Got, a.Buf) {
			r.Violate("path-equivalence", "path:block:second", "the second WriteBlock + Flush on one Writer produced %d bytes, EncodeBlock %d; first difference at %d (columns %v, %d rows)", len(sink.Got), len(a.Buf), firstDiff(sink.Got, a.Buf), colNames(cols), rows)
			return
		}
		// and column by column
		for i, in := range input {
			var cb proto.Buffer
			in.Data.EncodeColumn(&cb)
			s2 := &simio.FaultySink{FailAfter: -1}
			w2 := proto.NewWriter(s2, new(proto.Buffer))
			in.Data.WriteColumn(w2)
			if _, err := w2.Flush(); err != nil {
				r.Harness("Flush: %v", err)
				return
			}
			if !bytes.Equal(s2.Got, cb.Buf) {
				r.Violate("path-equivalence", "path:column:"+kindName(cols[i].RT), "WriteColumn produced %d bytes, EncodeColumn %d for %s; first difference at %d", len(s2.Got), len(cb.Buf), cols[i].Type, firstDiff(s2.Got, cb.Buf))
				return
			}
		}
		return
	}
	// drawn history
	n := c.Range("len", 2, 60)
	var ops []c14Op
	total := 0
	for i := 0; i < n; i++ {
		switch c.Weighted("op", 5, 4, 3, 1, 1, 1) {
		case 5:
			k := c.Pick("j.n", 1, 4, 64, 5000)
			ops = append(ops, c14Op{'j', k})
			total += 2*k + 3
			continue
		case 3:
			k := c.Pick("n.n", 1, 3, 64, 5000)
			ops = append(ops, c14Op{'n', k})
			total += k + 5
			continue
		case 4:
			k := c.Pick("d.n", 1, 8, 100, 4096)
			ops = append(ops, c14Op{'d', k})
			total += k + 4
			continue
		}
		switch c.Weighted("op.basic", 5, 4, 3) {
		case 0:
			k := c.Pick("a.n", 0, 1, 1, 8, 8, 3, 100, 4096, 70000)
			ops = append(ops, c14Op{'a', k})
			total += k
		case 1:
			k := c.Pick("w.n", 0, 1, 3, 64, 5000, 200000)
			ops = append(ops, c14Op{'w', k})
			total += k
		default:
			ops = append(ops, c14Op{'f', 0})
		}
	}
	if c.Bool("a.huge", 1, 40) {
		// one append of several megabytes: whatever the writer does with a
		// buffer that grew this far, the next flush still delivers what was
		// appended after it
		i := c.Draw("a.huge.at", len(ops))
		k := c.Pick("a.huge.n", 3<<20, 4<<20+1, 5<<20, 9<<20)
		ops = append(ops[:i:i], append([]c14Op{{'a', k}}, ops[i:]...)...)
		total += k
	}
	mode := c.Draw("sink", 3)
	at := 0
	if total > 0 {
		at = c.Draw("sink.at", total+1)
	}
	fmt.Fprintf(h, "%v|%d|%d", ops, mode, at)
	r.Cell = fmt.Sprintf("history/sink%d", mode)
	r.NonTriv = true
	if mode > 0 {
		r.Fire([]string{"", "write_err", "short_write"}[mode])
	}
	var names []string
	for _, op := range ops {
		names = append(names, fmt.Sprintf("%c%d", op.kind, op.n))
	}
	r.Sample = map[string]any{"family": "history", "ops": names, "sink_mode": mode, "sink_fails_at_byte": at}
	if d := c14Play(ops, c14Sink(mode, at)); d != "" {
		r.Violate("writer-model", "history", "%s (history %v, sink mode %d at %d)", d, names, mode, at)
	}
}
