package props

import (
	"context"
	"errors"
	"fmt"
	"net"
	"reflect"
	"runtime"
	"runtime/debug"
	"strings"
	"testing"
	"time"
	"unsafe"

	"github.com/ClickHouse/ch-go"
	"github.com/ClickHouse/ch-go/chpool"
	"github.com/ClickHouse/ch-go/proto"

	"chgosim/choice"
	"chgosim/gen"
	"chgosim/refproto"
	"chgosim/sched"
	"chgosim/simnet"
)

func init() {
	Register(&Prop{
		ID: "C11", Engine: "A", Quick: 8000, Thorough: 300000, Level: "exploration",
		Rule: "each run = a pool (MaxConns 1..3, MinConns 0..2, lifetimes/idle times/health-check period of seconds) over the simulated dialer, 1..4 user goroutines each playing a drawn program over {Acquire, Do ok / server exception / connection reset / cancelled by deadline, Ping, sleep, Release once or 2-3 times, Pool.Do, Pool.Ping}, auto-responding reference servers that log which user's request arrived on which connection, dial failures, Acquire calls that give up after 1 ms..2 s, connections whose Close reports an error, the holder's connection read from the handle when Acquire returns (a dead connection carries no request), simulated seconds passing between steps, the health checker running, and a final Close; invariants are evaluated after every scheduler decision and over the recorded history; distinct = schedule digests; non-trivial = at least two users or a fault (reset, exception, cancel, dial failure, double release, expiry)",
		Run:  runC11,
		// puddle runs destruction in goroutines of its own: a panic there kills
		// the process, which the parent attributes to the run in progress
		OnDeath: func(r *Result) {
			if r.Outcome != "died" {
				return
			}
			msg := "?"
			for _, l := range strings.Split(r.Detail, "\n") {
				if strings.HasPrefix(l, "panic: ") || strings.HasPrefix(l, "fatal error: ") {
					msg = l
					break
				}
			}
			r.Outcome = "violation"
			r.Clause = "process-crash"
			r.Key = "crash:" + msg
		},
	})
}

type poolOp struct {
	Op    string // acquire do-ok do-exc do-cut do-cancel ping sleep release pool-do pool-ping
	Sleep time.Duration
	N     int // release count
}

// reqLog is one request observed by a server: which connection, which user.
type reqLog struct {
	conn int
	user string
	hold int // holding interval id of that user (0 for Pool.Do/Pool.Ping)
	step int
	at   time.Duration
}

type holdIv struct {
	user     string
	id       int
	from, to int // scheduler steps; to = -1 while held
	conn     int // -1 until a request reveals it
	fromAt   time.Duration
}

// poolTarget is what a pool user binds: one known column, or whatever the
// server sends.
func poolTarget(auto bool, v *proto.ColUInt8) proto.Result {
	if auto {
		return new(proto.Results).Auto()
	}
	return proto.Results{{Name: "v", Data: v}}
}

func runC11(t *testing.T, c *choice.Stream, r *Result, opt RunOpt) { runPool(t, c, r, opt, false) }

// runPool is the pool workload; lean=true (race build, C12) drops every piece
// of bookkeeping shared between the scheduler and the user goroutines, so
// that the only memory they share is the library's.
func runPool(t *testing.T, c *choice.Stream, r *Result, opt RunOpt, lean bool) {
	Bubble(t, c, r, opt, func(e *Env) func() {
		cf := &Conf{ClientRev: 54460, ServerRev: 54460, ReadTimeout: time.Second}
		if c.Bool("rev.old", 1, 4) {
			cf.ServerRev = 54441
		}
		cf.Hello = refproto.ServerHello{Name: "ClickHouse", Major: 23, Minor: 8, Revision: cf.ServerRev, Timezone: "UTC", DisplayName: "pool", Patch: 1}
		maxConns := c.Range("maxconns", 1, 3)
		minConns := c.Range("minconns", 0, 2)
		// more connections to keep warm than the pool may have: the pool either
		// refuses that, or keeps to its maximum all the same
		overMin := minConns > maxConns && c.Bool("minconns.over", 1, 3)
		if minConns > maxConns && !overMin {
			minConns = maxConns
		}
		sec := func(label string, vals ...int) time.Duration {
			return time.Duration(c.Pick(label, vals...)) * time.Second
		}
		lifetime := sec("lifetime", 4, 10, 60, 3600)
		idleTime := sec("idletime", 3, 8, 1800)
		period := sec("period", 1, 2, 60)
		nUsers := c.Range("users", 1, 4)
		faulty := false
		// answers with generated columns (time zones, dictionaries, nested types)
		// read through inferred targets: the users of a pool decode at the same
		// time, each on its own connection
		var rich [][]byte
		if lean && c.Bool("pool.rich", 1, 2) {
			for i := 0; i < 4; i++ {
				cols := DrawCols(c, "pool.rich.cols", 3, 1)
				blk := DrawBlock(c, cols, c.Range("pool.rich.rows", 1, 3))
				// one column carries a time zone for certain
				base := []string{"DateTime", "DateTime64(3)"}[c.Draw("pool.rich.tz.base", 2)]
				alts := gen.ServerSpellings[base]
				rt, err := refproto.ParseType(base)
				if err != nil {
					panic(err)
				}
				blk.Cols = append(blk.Cols, refproto.Column{Name: "tz", Type: alts[c.Draw("pool.rich.tz", len(alts))], Vals: gen.Values(c.Sub("pool.rich.tz.vals"), rt, blk.Rows)})
				// ... and one is of the type whose codec differs most between the builds
				urt, err := refproto.ParseType("UUID")
				if err != nil {
					panic(err)
				}
				blk.Cols = append(blk.Cols, refproto.Column{Name: "u", Type: "UUID", Vals: gen.Values(c.Sub("pool.rich.uuid.vals"), urt, blk.Rows)})
				rich = append(rich, (&SPacket{Kind: "data", Block: blk}).Encode(cf))
			}
		}
		richN := 0
		progs := make([][]poolOp, nUsers)
		for u := range progs {
			n := c.Range("prog.len", 1, 4)
			for i := 0; i < n; i++ {
				switch c.Weighted("prog.kind", 12, 2, 2, 1, 3) {
				case 1:
					if c.Bool("pooldo.after-sleep", 1, 2) {
						// time passes first: the connection Pool.Do gets may be about to expire
						progs[u] = append(progs[u], poolOp{Op: "sleep", Sleep: sec("pooldo.sleep", 1, 2, 5, 12)})
					}
					progs[u] = append(progs[u], poolOp{Op: "pool-do"})
					continue
				case 2:
					progs[u] = append(progs[u], poolOp{Op: "pool-ping"})
					continue
				case 3:
					// many acquire/release cycles: handles of long ago stay around in the caller's hands
					progs[u] = append(progs[u], poolOp{Op: "churn", N: c.Pick("churn.n", 5, 30, 62, 63, 64, 65, 126, 127, 128, 129, 200)})
					faulty = true
					continue
				case 4:
					// Release once more on a handle that was released earlier
					progs[u] = append(progs[u], poolOp{Op: "stale-release", N: c.Draw("stale.which", 4)})
					faulty = true
					continue
				}
				// an Acquire may give up early: while waiting for a free slot, or while
				// the connection it asked for is still being dialled and greeted
				progs[u] = append(progs[u], poolOp{Op: "acquire", Sleep: time.Duration(c.Pick("acquire.timeout.ms", 30000, 30000, 30000, 2000, 300, 20, 1)) * time.Millisecond})
				k := c.Range("use.len", 0, 3)
				for j := 0; j < k; j++ {
					op := []string{"do-ok", "do-exc", "do-cut", "do-cancel", "ping", "sleep", "stale-release"}[c.Weighted("use.op", 5, 2, 2, 1, 2, 3, 2)]
					po := poolOp{Op: op}
					if op == "stale-release" {
						po.N = c.Draw("stale.which", 4)
					}
					if op == "sleep" {
						po.Sleep = sec("sleep", 1, 2, 5, 12)
					}
					if op != "do-ok" && op != "ping" {
						faulty = true
					}
					if op == "stale-release" && j == 0 {
						// give the held handle something to do afterwards, so that a second holder is observable
						progs[u] = append(progs[u], po, poolOp{Op: "sleep", Sleep: time.Second}, poolOp{Op: "do-ok"})
						continue
					}
					progs[u] = append(progs[u], po)
				}
				rel := poolOp{Op: "release", N: 1}
				if c.Bool("release.multi", 1, 4) {
					rel.N = c.Range("release.n", 2, 3)
					faulty = true
				}
				progs[u] = append(progs[u], rel)
				if c.Bool("between.sleep", 1, 3) {
					progs[u] = append(progs[u], poolOp{Op: "sleep", Sleep: sec("sleep", 1, 2, 5, 12)})
				}
			}
		}
		closeEarly := c.Bool("close.early", 1, 5)
		useDefaults := c.Bool("pool.defaults", 1, 6)
		useDial := c.Bool("pool.dial", 1, 3)
		if useDefaults {
			lifetime, idleTime, period = time.Hour, 30*time.Minute, time.Minute
		}
		dialFail := map[int]bool{}
		if c.Bool("dialfail", 1, 5) {
			dialFail[c.Draw("dialfail.n", 4)] = true
			faulty = true
		}

		// ---- servers: one per dialed connection ----
		var reqs []reqLog
		// The server learns of a request when it parses it, which may be many
		// scheduler steps after the client wrote it: requests are stamped with
		// the step and time of the Write that carried their first byte.
		userOf := func(cn *simnet.Conn, pk *refproto.ClientPacket) reqLog {
			q := reqLog{conn: cn.ID, user: "?", hold: -1, step: e.Sim.Step, at: e.Sim.Now()}
			for i := len(cn.Writes) - 1; i >= 0; i-- {
				w := cn.Writes[i]
				if w.Off <= pk.Off && pk.Off < w.Off+w.N {
					q.step, q.at = w.Step, w.At
					if pk.Kind != refproto.PQuery {
						// Ping runs on the caller's goroutine: the writer of its byte
						q.user = e.Sim.NameOf(w.Gid)
					}
					break
				}
			}
			if pk.Kind == refproto.PQuery {
				if _, err := fmt.Sscanf(pk.QueryID, "%s %d", &q.user, &q.hold); err != nil {
					q.user, q.hold = "?"+pk.QueryID, 0
				}
			}
			return q
		}
		var stepErr string
		newPeer := func(n int) simnet.Peer {
			srv := simnet.NewServer(cf.ServerRev, cf.HandshakeSteps())
			var body string
			srv.Auto = func(s *simnet.Server, cn *simnet.Conn, p *refproto.ClientPacket) {
				switch p.Kind {
				case refproto.PPing:
					if !lean {
						reqs = append(reqs, userOf(cn, p))
					}
					cn.Enqueue((&SPacket{Kind: "pong"}).Encode(cf))
				case refproto.PQuery:
					if !lean {
						q := userOf(cn, p)
						for _, st := range p.Settings {
							if st.Key == "user_tag" && st.Value != q.user && stepErr == "" {
								stepErr = fmt.Sprintf("I1|foreign-setting|the query of %s arrived on connection %d carrying the query-level setting of %s", q.user, cn.ID, st.Value)
							}
						}
						reqs = append(reqs, q)
					}
					body = p.Body
				case refproto.PData:
					if body == "" || p.Block == nil || len(p.Block.Cols) != 0 {
						return
					}
					b := body
					body = ""
					switch b {
					case "EXC":
						cn.Enqueue((&SPacket{Kind: "exception", Exc: []refproto.Exception{{Code: 60, Name: "DB::Exception", Message: "DB::Exception: no table"}}}).Encode(cf))
					case "CUT":
						cn.Enqueue([]byte{1}) // start of a Data packet, then the connection dies
						cn.EndStream(true)
					case "STALL":
					default:
						if rich != nil {
							cn.Enqueue(rich[richN%len(rich)])
							richN++
							cn.Enqueue((&SPacket{Kind: "eos"}).Encode(cf))
							break
						}
						blk := &refproto.Block{Rows: 1, BucketNum: -1, Cols: []refproto.Column{{Name: "v", Type: "UInt8", Vals: []any{uint64(1)}}}}
						cn.Enqueue((&SPacket{Kind: "data", Block: blk}).Encode(cf))
						cn.Enqueue((&SPacket{Kind: "eos"}).Encode(cf))
					}
				}
			}
			return srv
		}
		dialer := &simnet.Dialer{W: e.W, NewPeer: newPeer, Fail: dialFail}
		// some connections report an error from Close while releasing the socket
		// (tls.Conn does when close_notify cannot be written)
		closeErr := map[int]bool{}
		if c.Bool("close_err", 1, 3) {
			for n := 0; n < 12; n++ {
				closeErr[n] = c.Bool("close_err.n", 1, 2)
			}
		}
		dialer.OnConn = func(n int, cn *simnet.Conn) { cn.CloseErr = closeErr[n] }
		e.Sim.DrawStrategy()
		e.Sim.MaxSteps = 200000
		e.W.DeliverMode = c.Weighted("deliver", 5, 0, 2)
		e.W.ChunkMax = 64

		// ---- history ----
		var holds []*holdIv
		firstUse := map[int]time.Duration{} // conn -> first time a request was seen on it
		type ban struct {
			why  string
			step int
		}
		banned := map[int]ban{} // conn -> why, and from which step on, it must never be handed out again
		live := func() int {
			n := 0
			for _, cn := range dialer.Dialed {
				if !cn.IsClosed() {
					n++
				}
			}
			return n
		}
		maxLive := 0
		seenReqs := 0
		e.Sim.OnStep = append(e.Sim.OnStep, func() {
			if lean || stepErr != "" {
				return
			}
			if n := live(); n > maxLive {
				maxLive = n
				if n > maxConns {
					stepErr = fmt.Sprintf("I2|too-many-conns|%d connections open at step %d, MaxConns is %d", n, e.Sim.Step, maxConns)
				}
			}
			holdsAt := func(h *holdIv, step int) bool { return h.from <= step && (h.to < 0 || step <= h.to) }
			for ; seenReqs < len(reqs); seenReqs++ {
				q := reqs[seenReqs]
				if _, ok := firstUse[q.conn]; !ok {
					firstUse[q.conn] = q.at
				}
				// the holding interval this request belongs to (none for Pool.Do / Pool.Ping)
				var iv *holdIv
				for _, h := range holds {
					if h.user != q.user {
						continue
					}
					if q.hold > 0 && h.id == q.hold || q.hold < 0 && holdsAt(h, q.step) {
						iv = h
					}
				}
				if iv == nil {
					if b, bad := banned[q.conn]; bad && q.step > b.step {
						stepErr = fmt.Sprintf("I3|reissued|connection %d was handed out again (request of %s written at step %d) although %s", q.conn, q.user, q.step, b.why)
						return
					}
					for _, o := range holds {
						if o.conn == q.conn && o.user != q.user && holdsAt(o, q.step) {
							stepErr = fmt.Sprintf("I1|two-holders|connection %d carries a pool-level request of %s (written at step %d) while %s holds it (steps %d..%d)", q.conn, q.user, q.step, o.user, o.from, o.to)
							return
						}
					}
					continue
				}
				if iv.conn < 0 {
					iv.conn = q.conn
					if b, bad := banned[q.conn]; bad && iv.from > b.step {
						stepErr = fmt.Sprintf("I3|reissued|connection %d was handed to %s (acquired at step %d) although %s", q.conn, q.user, iv.from, b.why)
						return
					}
					// nobody else may be entitled to this connection during this interval
					for _, o := range holds {
						if o == iv || o.conn != q.conn {
							continue
						}
						overlap := (o.to < 0 || iv.from <= o.to) && (iv.to < 0 || o.from <= iv.to)
						if overlap {
							stepErr = fmt.Sprintf("I1|two-holders|connection %d is used by %s (holding steps %d..%d) and by %s (holding steps %d..%d)", q.conn, iv.user, iv.from, iv.to, o.user, o.from, o.to)
							return
						}
					}
				} else if iv.conn != q.conn {
					stepErr = fmt.Sprintf("I1|handle-moved|requests of one handle of %s went to connections %d and %d", iv.user, iv.conn, q.conn)
					return
				}
			}
		})

		r.NonTriv = nUsers >= 2 || faulty
		var progNames [][]string
		for _, p := range progs {
			var s []string
			for _, op := range p {
				x := op.Op
				if op.Op == "release" && op.N > 1 {
					x = fmt.Sprintf("release x%d", op.N)
				}
				if op.Op == "sleep" {
					x = "sleep " + op.Sleep.String()
				}
				s = append(s, x)
			}
			progNames = append(progNames, s)
		}
		r.Cell = fmt.Sprintf("max%d/min%d/users%d", maxConns, minConns, nUsers)
		r.Sample = map[string]any{"max_conns": maxConns, "min_conns": minConns, "lifetime": lifetime.String(), "idle_time": idleTime.String(), "health_period": period.String(), "programs": progNames, "close_early": closeEarly, "dial_fail": fmt.Sprint(dialFail)}

		var mainFinished bool
		e.OnHang = func(info string) {
			r.Violate("stuck", "stuck", "the pool workload made no progress for an hour of simulated time\n%s", info)
		}
		e.After = func(out sched.Outcome) {
			if lean {
				return
			}
			if stepErr != "" {
				p := strings.SplitN(stepErr, "|", 3)
				r.Violate(p[0], p[1], "%s", p[2])
				return
			}
			if !mainFinished || r.Outcome == "violation" {
				return
			}
			for _, cn := range dialer.Dialed {
				if !cn.IsClosed() {
					r.Violate("I6", "conn-left-open", "connection %d is still open after Pool.Close returned and every handle was released (%d dialed)", cn.ID, len(dialer.Dialed))
					return
				}
			}
			buf := make([]byte, 1<<18)
			buf = buf[:runtime.Stack(buf, true)]
			if left := LibGoroutines(string(buf)); len(left) > 0 {
				r.Violate("I6", "goroutine-left:"+firstLibFrame(left[0]), "%d goroutine(s) with a library frame alive after Pool.Close:\n%.1500s", len(left), left[0])
			}
		}
		return func() {
			defer func() {
				if !lean {
					mainFinished = true
				}
			}()
			ctx := context.Background()
			opts := cf.Options()
			opts.Dialer = dialer
			// connection-level settings in a slice with spare capacity, as produced
			// by make(..., 0, n) + append: every pooled client shares its backing array
			opts.Settings = append(make([]ch.Setting, 0, 8), ch.Setting{Key: "max_threads", Value: "2", Important: true})
			po := chpool.Options{ClientOptions: opts, MaxConns: int32(maxConns), MinConns: int32(minConns),
				MaxConnLifetime: lifetime, MaxConnIdleTime: idleTime, HealthCheckPeriod: period}
			if useDefaults {
				// the documented defaults: one hour, thirty minutes, one minute
				po.MaxConnLifetime, po.MaxConnIdleTime, po.HealthCheckPeriod = 0, 0, 0
			}
			newPool := chpool.New
			if useDial {
				newPool = chpool.Dial // also checks that a connection can be made
			}
			pool, err := newPool(ctx, po)
			if err != nil {
				if overMin {
					r.Probe("min_above_max_refused")
				} else if len(dialFail) == 0 {
					r.Harness("chpool.New failed without a dial fault: %v", err)
				}
				return
			}
			done := make(chan struct{}, nUsers)
			for u := range progs {
				name := fmt.Sprintf("u%d", u)
				prog := progs[u]
				e.Sim.Go(name, func() {
					defer func() { done <- struct{}{} }()
					// In the race build nothing but the library may synchronise the users
					// with each other: even a shared counter lock would order them.
					fire := func(k string) {
						if !lean {
							r.Fire(k)
						}
					}
					probe := func(k string) {
						if !lean {
							r.Probe(k)
						}
					}
					_, _ = fire, probe
					defer func() {
						if p := recover(); p != nil {
							r.Violate("panic", "panic:"+firstLibFrame(string(debug.Stack())), "user %s panicked: %v\n%.1500s", name, p, debug.Stack())
						}
					}()
					var cl *chpool.Client
					var iv *holdIv
					nHold := 0
					doBody := func(op string) string {
						switch op {
						case "do-exc":
							return "EXC"
						case "do-cut":
							return "CUT"
						case "do-cancel":
							return "STALL"
						}
						return "OK"
					}
					var released []*chpool.Client // handles this user has given back
					for _, op := range prog {
						switch op.Op {
						case "churn":
							if cl != nil {
								continue
							}
							for k := 0; k < op.N; k++ {
								actx, cancel := context.WithTimeout(ctx, 30*time.Second)
								x, err := pool.Acquire(actx)
								cancel()
								if err != nil {
									break
								}
								x.Release()
								if len(released) < 8 {
									released = append(released, x)
								}
							}
							fire("churn")
						case "stale-release":
							if len(released) > 0 {
								released[op.N%len(released)].Release()
								fire("stale_release")
							}
						case "sleep":
							time.Sleep(op.Sleep)
							e.Sim.Yield("user.sleep")
						case "pool-do", "pool-ping":
							if cl != nil {
								continue
							}
							if op.Op == "pool-do" {
								var v proto.ColUInt8
								nreq := len(reqs)
								_ = pool.Do(ctx, ch.Query{Body: "OK", QueryID: name + " 0", Result: poolTarget(rich != nil, &v),
									Settings: []ch.Setting{{Key: "user_tag", Value: name}}})
								// Pool.Do has released the connection it used: if that one was past
								// its lifetime by then, nobody may receive it again
								if !lean {
									for _, q := range reqs[min(nreq, len(reqs)):] {
										if q.user != name || q.hold != 0 {
											continue
										}
										// judged at the instant the request was written, which is before
										// the release: the age can only have grown since (time may also
										// pass between the release and this line)
										if fu, ok := firstUse[q.conn]; ok && q.at-fu > lifetime {
											if _, had := banned[q.conn]; !had {
												banned[q.conn] = ban{fmt.Sprintf("it was older than MaxConnLifetime (%v) when Pool.Do of %s released it at step %d", lifetime, name, e.Sim.Step), e.Sim.Step}
												fire("expired_at_pool_do_release")
											}
										}
									}
								}
							} else {
								_ = pool.Ping(ctx)
							}
						case "acquire":
							if cl != nil {
								continue
							}
							to := op.Sleep
							if to == 0 {
								to = 30 * time.Second
							}
							actx, cancel := context.WithTimeout(ctx, to)
							x, err := pool.Acquire(actx)
							cancel()
							if err != nil {
								if to < 30*time.Second && !lean {
									fire("acquire_gave_up")
								}
								// without a connection the uses that follow have nothing to act on
								continue
							}
							cl = x
							nHold++
							iv = &holdIv{user: name, id: nHold, to: -1, conn: -1}
							if !lean {
								iv.from, iv.fromAt = e.Sim.Step, e.Sim.Now()
								// Which connection was handed out is looked up in the handle itself
								// (a dead connection carries no request that the server could
								// attribute), and the entitlement is judged at once.
								if id := poolConnID(x); id >= 0 && stepErr == "" {
									iv.conn = id
									if b, bad := banned[id]; bad {
										stepErr = fmt.Sprintf("I3|reissued|connection %d was handed to %s by Acquire at step %d although %s", id, name, iv.from, b.why)
									}
									for _, o := range holds {
										if o.conn == id && o.to < 0 {
											stepErr = fmt.Sprintf("I1|two-holders|connection %d was handed to %s by Acquire at step %d while %s holds it (since step %d)", id, name, iv.from, o.user, o.from)
										}
									}
								}
								holds = append(holds, iv)
							}
						case "release":
							if cl == nil {
								continue
							}
							// what the statement says about this release
							if !lean && iv.conn >= 0 {
								var cn *simnet.Conn
								for _, d := range dialer.Dialed {
									if d.ID == iv.conn {
										cn = d
									}
								}
								if cn != nil && cn.IsClosed() {
									banned[iv.conn] = ban{fmt.Sprintf("its client was closed when %s released it at step %d", name, e.Sim.Step), e.Sim.Step}
								} else if fu, ok := firstUse[iv.conn]; ok && e.Sim.Now()-fu > lifetime {
									banned[iv.conn] = ban{fmt.Sprintf("it was older than MaxConnLifetime (%v) when %s released it at step %d", lifetime, name, e.Sim.Step), e.Sim.Step}
									fire("expired_at_release")
								}
							}
							if !lean {
								iv.to = e.Sim.Step
							}
							for k := 0; k < op.N; k++ {
								if k > 0 {
									fire("double_release")
									e.Sim.Yield("user.release-again")
								}
								cl.Release()
							}
							if len(released) < 8 {
								released = append(released, cl)
							}
							cl, iv = nil, nil
						default:
							if cl == nil {
								continue
							}
							if op.Op == "ping" {
								_ = cl.Ping(ctx)
								continue
							}
							qctx := ctx
							var cancel context.CancelFunc
							if op.Op == "do-cancel" {
								qctx, cancel = context.WithTimeout(ctx, 500*time.Millisecond)
							}
							var v proto.ColUInt8
							derr := cl.Do(qctx, ch.Query{Body: doBody(op.Op), QueryID: fmt.Sprintf("%s %d", name, iv.id), Result: poolTarget(rich != nil, &v),
								Settings: []ch.Setting{{Key: "user_tag", Value: name}}})
							if cancel != nil {
								cancel()
							}
							switch op.Op {
							case "do-exc":
								if !ch.IsException(derr) {
									probe("exc_not_delivered")
								} else {
									fire("exception")
								}
							case "do-cut":
								fire("cut_rst")
							case "do-cancel":
								if errors.Is(derr, context.DeadlineExceeded) {
									fire("cancel")
								}
							}
						}
					}
					if cl != nil {
						if !lean {
							iv.to = e.Sim.Step
						}
						cl.Release()
					}
				})
			}
			if closeEarly {
				e.Sim.Yield("main.before-early-close")
				pool.Close()
			}
			for range progs {
				<-done
				e.Sim.Yield("main.user-done")
			}
			// I5: idle connections past their idle time / lifetime go away within a period (+1 s)
			if !lean && !closeEarly && idleTime+period < 30*time.Second {
				e.Sim.SetFair()
				// whatever is open now is idle from here on; with MinConns > 0 the pool
				// replaces what it destroys, so only these have to be gone afterwards
				before := len(dialer.Dialed)
				time.Sleep(idleTime + period + time.Second)
				e.Sim.Yield("main.after-idle-wait")
				stat := pool.Stat()
				{
					for _, cn := range dialer.Dialed[:before] {
						if !cn.IsClosed() {
							r.Violate("I5", "idle-not-destroyed", "connection %d is still open %v after the last use (MaxConnIdleTime %v, HealthCheckPeriod %v); pool has %d idle", cn.ID, idleTime+period+time.Second, idleTime, period, stat.IdleResources())
							break
						}
					}
					r.Fire("health_check_idle_expiry")
				}
			}
			pool.Close()
			e.Sim.Yield("main.closed")
		}
	})
}

var _ = choice.New

// poolConnID finds the simulated connection behind a pool handle. The harness
// only reads: handle -> resource -> client -> net.Conn.
func poolConnID(x *chpool.Client) (id int) {
	defer func() {
		if recover() != nil {
			id = -1
		}
	}()
	open := func(f reflect.Value) reflect.Value {
		return reflect.NewAt(f.Type(), unsafe.Pointer(f.UnsafeAddr())).Elem()
	}
	res := open(reflect.ValueOf(x).Elem().FieldByName("res"))
	if res.IsNil() {
		return -1
	}
	cr := res.MethodByName("Value").Call(nil)[0]
	cli := open(cr.Elem().FieldByName("client")).Interface().(*ch.Client)
	cn := open(reflect.ValueOf(cli).Elem().FieldByName("conn")).Interface().(net.Conn)
	if sc, ok := cn.(*simnet.Conn); ok {
		return sc.ID
	}
	return -1
}
