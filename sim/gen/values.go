package gen

import (
	"fmt"
	"github.com/ClickHouse/ch-go/proto"
	"math"
	"math/rand/v2"
	"strings"
	"time"

	"chgosim/choice"
	"chgosim/refproto"
)

// Scalars usable at any position of the grammar.
var Scalars = []string{
	"Int8", "Int16", "Int32", "Int64", "UInt8", "UInt16", "UInt32", "UInt64",
	"Int128", "UInt128", "Int256", "UInt256", "Float32", "Float64",
	"String", "Bool", "UUID", "IPv4", "IPv6",
	"FixedString(8)", "FixedString(16)", "FixedString(3)", "FixedString(20)",
	"Decimal32", "Decimal64", "Decimal128", "Decimal256",
}

// TopOnly types are generated only as whole columns (raw date/time storage).
var TopOnly = []string{"Date", "Date32", "DateTime", "DateTime64(3)", "DateTime64(9)", "Point",
	"Enum8('a' = 1, 'b' = 2)", "Enum8('neg' = -128, 'zero' = 0, 'max' = 127, 'x y' = 5)", "Enum16('lo' = -32768, 'a' = 1, 'big' = 300, 'hi' = 32767)",
	"IntervalSecond", "IntervalWeek", "IntervalYear",
	"JSON", "Nullable(Nothing)", "Array(Nothing)",
}

// Maps with a static instantiation in NewCol.
var Maps = []string{
	"Map(String,String)", "Map(String,UInt64)", "Map(Int32,String)", "Map(String,Array(String))", "Map(LowCardinality(String),String)",
}

// Nested arrays with a static instantiation in NewCol.
var Nested = []string{
	"Array(Array(String))", "Array(Array(UInt64))", "Array(Array(Nullable(String)))", "Array(Array(Array(UInt16)))", "Array(Array(LowCardinality(String)))",
}

// ServerSpellings: how a server may write a type the library spells differently
// (parametrised decimals at their precision boundaries, time zones). Used for
// blocks that travel from the server to the client.
var ServerSpellings = map[string][]string{
	"Decimal32":     {"Decimal(1, 0)", "Decimal(9, 2)"},
	"Decimal64":     {"Decimal(10, 2)", "Decimal(18, 4)"},
	"Decimal128":    {"Decimal(19, 2)", "Decimal(38, 10)"},
	"Decimal256":    {"Decimal(39, 10)", "Decimal(76, 20)"},
	"DateTime":      {"DateTime('UTC')", "DateTime('Europe/Berlin')"},
	"DateTime64(3)": {"DateTime64(3, 'UTC')", "DateTime64(3, 'Asia/Tokyo')"},
	"DateTime64(9)": {"DateTime64(9, 'UTC')"},
}

// zones: ordinary IANA names, many of them, so that a process keeps meeting
// zones it has not loaded yet (whatever the library shares between decoders
// about a zone is then written while other decoders read it)
var zones = []string{"Europe/Berlin", "Asia/Tokyo", "America/New_York", "Europe/London", "Europe/Moscow", "Asia/Shanghai", "Asia/Kolkata", "Australia/Sydney",
	"America/Los_Angeles", "America/Chicago", "America/Sao_Paulo", "Africa/Cairo", "Africa/Johannesburg", "Asia/Dubai", "Asia/Singapore", "Asia/Seoul",
	"Europe/Paris", "Europe/Madrid", "Europe/Rome", "Europe/Amsterdam", "Europe/Istanbul", "Europe/Kyiv", "Europe/Warsaw", "Europe/Lisbon",
	"America/Denver", "America/Toronto", "America/Mexico_City", "America/Bogota", "America/Lima", "America/Santiago", "America/Anchorage", "Pacific/Auckland",
	"Pacific/Honolulu", "Asia/Bangkok", "Asia/Jakarta", "Asia/Manila", "Asia/Karachi", "Asia/Tehran", "Asia/Kathmandu", "Atlantic/Reykjavik",
	"Africa/Lagos", "Africa/Nairobi", "Asia/Tashkent", "Asia/Almaty", "Asia/Yekaterinburg", "Asia/Novosibirsk", "Asia/Vladivostok", "Australia/Perth"}

func init() {
	for _, z := range zones {
		if _, err := time.LoadLocation(z); err != nil {
			continue // not in this system's zone database
		}
		ServerSpellings["DateTime"] = append(ServerSpellings["DateTime"], "DateTime('"+z+"')")
		ServerSpellings["DateTime64(3)"] = append(ServerSpellings["DateTime64(3)"], "DateTime64(3, '"+z+"')")
	}
}

// ServerSpelling draws the way a server writes type t (often just t), applied to
// every occurrence of a respellable type inside t.
func ServerSpelling(c *choice.Stream, t string) string {
	if !c.Bool("type.serverspelling", 1, 3) || strings.Contains(t, "Tuple(") || strings.Contains(t, "Map(") {
		// how a bound target compares composite types is result binding, not decoding
		return t
	}
	for _, e := range spellingOrder {
		if !strings.Contains(t, e) {
			continue
		}
		// whole-word occurrences only: "Decimal32" must not match inside "Decimal32(4)"
		alts := ServerSpellings[e]
		alt := alts[c.Draw("type.serverspelling.alt", len(alts))]
		out, i := "", 0
		for {
			j := strings.Index(t[i:], e)
			if j < 0 {
				out += t[i:]
				break
			}
			j += i
			end := j + len(e)
			boundary := (j == 0 || strings.ContainsRune("(, ", rune(t[j-1]))) && (end == len(t) || strings.ContainsRune("), ", rune(t[end])))
			if boundary {
				out += t[i:j] + alt
			} else {
				out += t[i:end]
			}
			i = end
		}
		t = out
	}
	return t
}

var spellingOrder = []string{"Decimal32", "Decimal64", "Decimal128", "Decimal256", "DateTime64(3)", "DateTime64(9)", "DateTime"}

var supported = map[string]bool{}

// Supported reports whether the library can construct a column of this type
// through the constructors the harness uses (and the bridge can fill it).
func Supported(t string) bool {
	if v, ok := supported[t]; ok {
		return v
	}
	ok := false
	func() {
		defer func() { _ = recover() }()
		rt, err := refproto.ParseType(t)
		if err != nil {
			return
		}
		col, err := newCol(rt)
		if err != nil {
			return
		}
		// A typed target must accept its own type string: result binding calls
		// Infer(type) on inferable targets (binding itself is C18's subject;
		// e.g. ColTuple forwards the whole tuple type to every element).
		if inf, ok := col.(proto.Inferable); ok {
			if err := inf.Infer(proto.ColumnType(t)); err != nil {
				return
			}
		}
		if proto.ColumnType(t).Conflicts(col.Type()) {
			return
		}
		r := rand.New(rand.NewPCG(1, 2))
		vals := Values(r, rt, 3)
		if err := Fill(col, rt, vals); err != nil {
			return
		}
		if _, err := ReadAll(col, rt, 3); err != nil {
			return
		}
		ok = true
	}()
	supported[t] = ok
	return ok
}

// DrawType draws a column type of nesting depth <= depth which the library
// can construct; unsupported compositions are redrawn.
func DrawType(c *choice.Stream, depth int) string {
	for i := 0; i < 6; i++ {
		t := drawType(c, depth, true)
		if Supported(t) {
			return t
		}
	}
	return "UInt64"
}

func drawType(c *choice.Stream, depth int, top bool) string {
	k := 0
	if depth > 0 {
		k = c.Weighted("type.shape", 10, 3, 3, 3, 1, 2, 2)
	}
	if k == 6 && !top {
		// raw date/time columns need type inference, which composite columns do not forward correctly
		k = 0
	}
	switch k {
	case 1:
		// Nullable over a scalar (Nullable cannot wrap composites)
		return "Nullable(" + Scalars[c.Draw("type.scalar", len(Scalars))] + ")"
	case 2:
		if c.Bool("type.nested", 1, 6) {
			return Nested[c.Draw("type.nested.i", len(Nested))]
		}
		return "Array(" + drawType(c, depth-1, false) + ")"
	case 3:
		switch c.Draw("type.lc", 3) {
		case 0:
			return "LowCardinality(String)"
		case 1:
			return "Array(LowCardinality(String))"
		default:
			return "LowCardinality(" + []string{"String", "UInt16", "FixedString(8)", "Int64"}[c.Draw("type.lc.inner", 4)] + ")"
		}
	case 4:
		return Maps[c.Draw("type.map", len(Maps))]
	case 5:
		n := c.Range("type.tuple.n", 1, 3)
		s := "Tuple("
		for i := 0; i < n; i++ {
			if i > 0 {
				s += ", "
			}
			s += drawType(c, depth-1, false)
		}
		return s + ")"
	case 6:
		return TopOnly[c.Draw("type.top", len(TopOnly))]
	}
	return Scalars[c.Draw("type.scalar", len(Scalars))]
}

var strLens = []int{0, 1, 2, 5, 127, 128, 129, 300, 1023, 1024, 1025, 5000, 16383, 16384}

func randBytes(r *rand.Rand, n int) string {
	b := make([]byte, n)
	for i := range b {
		b[i] = byte(r.UintN(256))
	}
	return string(b)
}

func randString(r *rand.Rand) string {
	var n int
	switch r.UintN(10) {
	case 0:
		n = strLens[r.UintN(uint(len(strLens)))]
		if n > 300 && r.UintN(3) != 0 {
			n = strLens[r.UintN(8)] // the long ones stay rare
		} else if n > 300 && r.UintN(40) == 0 {
			n = []int{65535, 65536, 65537, 100000, 1<<20 + 1}[r.UintN(5)] // and the very long ones rarer still
		}
	case 1:
		n = int(r.UintN(40))
	default:
		n = int(r.UintN(9))
	}
	if r.UintN(4) == 0 {
		return randBytes(r, n)
	}
	b := make([]byte, n)
	for i := range b {
		b[i] = "abcdefghijklmnopqrstuvwxyz0123456789 _-"[r.UintN(39)]
	}
	return string(b)
}

func boundaryU(r *rand.Rand, bits int) uint64 {
	max := uint64(math.MaxUint64)
	if bits < 64 {
		max = 1<<uint(bits) - 1
	}
	switch r.UintN(8) {
	case 0:
		return 0
	case 1:
		return max
	case 2:
		return max >> 1 // signed max
	case 3:
		return max>>1 + 1 // signed min
	case 4:
		return 1
	default:
		return r.Uint64() & max
	}
}

// Value draws one value of type t.
func Value(r *rand.Rand, t *refproto.Type) any {
	switch t.Kind {
	case refproto.KInt:
		if len(t.Enum) > 0 {
			return t.Enum[r.UintN(uint(len(t.Enum)))].Val // only defined values are valid data
		}
		u := boundaryU(r, 8*t.Size)
		sh := uint(64 - 8*t.Size)
		return int64(u<<sh) >> sh
	case refproto.KUInt:
		return boundaryU(r, 8*t.Size)
	case refproto.KF32:
		switch r.UintN(10) {
		case 0:
			return refproto.F32(0x7fc00000) // NaN
		case 1:
			return refproto.F32(math.Float32bits(float32(math.Inf(1))))
		case 2:
			return refproto.F32(math.Float32bits(float32(math.Inf(-1))))
		case 3:
			return refproto.F32(0x80000000) // -0
		case 4:
			return refproto.F32(math.Float32bits(math.MaxFloat32))
		}
		return refproto.F32(math.Float32bits(float32(r.NormFloat64() * 1000)))
	case refproto.KF64:
		switch r.UintN(10) {
		case 0:
			return refproto.F64(0x7ff8000000000001)
		case 1:
			return refproto.F64(math.Float64bits(math.Inf(1)))
		case 2:
			return refproto.F64(math.Float64bits(math.Inf(-1)))
		case 3:
			return refproto.F64(1 << 63)
		case 4:
			return refproto.F64(math.Float64bits(math.SmallestNonzeroFloat64))
		}
		return refproto.F64(math.Float64bits(r.NormFloat64() * 1e6))
	case refproto.KString:
		return randString(r)
	case refproto.KFixed, refproto.KUUID:
		if r.UintN(6) == 0 {
			return string(make([]byte, t.Size))
		}
		return randBytes(r, t.Size)
	case refproto.KWide:
		switch r.UintN(6) {
		case 0:
			return refproto.Wide(make([]byte, t.Size))
		case 1:
			b := make([]byte, t.Size)
			for i := range b {
				b[i] = 0xff
			}
			return refproto.Wide(b)
		}
		return refproto.Wide(randBytes(r, t.Size))
	case refproto.KBool:
		return r.UintN(2) == 1
	case refproto.KNothing:
		return refproto.Nothing{}
	case refproto.KNullable:
		if r.UintN(3) == 0 {
			return nil
		}
		return Value(r, t.Elems[0])
	case refproto.KArray:
		n := 0
		switch r.UintN(6) {
		case 0:
			n = 0
		case 1:
			n = 1
		default:
			n = int(r.UintN(5))
		}
		out := make([]any, n)
		for i := range out {
			out[i] = Value(r, t.Elems[0])
		}
		return out
	case refproto.KTuple:
		out := make(refproto.Tup, len(t.Elems))
		for i, e := range t.Elems {
			out[i] = Value(r, e)
		}
		return out
	case refproto.KMap:
		n := int(r.UintN(4))
		out := make(refproto.MapV, 0, n)
		for i := 0; i < n; i++ {
			// distinct keys: suffix with position so that order is meaningful
			k := Value(r, t.Elems[0])
			if s, ok := k.(string); ok {
				k = fmt.Sprintf("%s#%d", s, i)
			} else if x, ok := k.(int64); ok {
				k = int64(int32(x&^3 | int64(i)))
			}
			out = append(out, refproto.KV{K: k, V: Value(r, t.Elems[1])})
		}
		return out
	case refproto.KLowCard:
		// few distinct values
		inner := t.Elems[0]
		if inner.Kind == refproto.KString {
			return []string{"", "a", "bb", "ccc", "lowcard", "x\x00y"}[r.UintN(6)]
		}
		rr := rand.New(rand.NewPCG(uint64(r.UintN(5)), 7))
		return Value(rr, inner)
	}
	panic("gen: value of " + t.Name)
}

// Values draws n values.
func Values(r *rand.Rand, t *refproto.Type, n int) []any {
	if t.Kind == refproto.KLowCard && n >= 200 && r.UintN(2) == 0 {
		// a dictionary that needs keys wider than one byte: several hundred distinct values
		inner := t.Elems[0]
		pool := 254 + int(r.UintN(300))
		out := make([]any, n)
		for i := range out {
			rr := rand.New(rand.NewPCG(uint64(r.UintN(uint(pool))), 11))
			v := Value(rr, inner)
			if s, ok := v.(string); ok && inner.Kind == refproto.KString {
				v = fmt.Sprintf("%s/%d", s, rr.UintN(1<<30))
			}
			out[i] = v
		}
		return out
	}
	out := make([]any, n)
	for i := range out {
		out[i] = Value(r, t)
	}
	return out
}

// DrawRows draws a boundary-biased row count.
func DrawRows(c *choice.Stream, label string) int {
	switch c.Weighted(label, 4, 6, 16, 4, 4, 1) {
	case 5:
		// around the sizes of pages and 16-bit counters
		return c.Pick(label+".p", 4095, 4096, 4097, 8192, 12288, 65535, 65536)
	case 0:
		return 0
	case 1:
		return 1
	case 2:
		return 2 + c.Draw(label+".n", 8)
	case 3:
		return 10 + c.Draw(label+".m", 120)
	default:
		return 250 + c.Draw(label+".l", 400)
	}
}

// LibrarySpelling maps a server spelling back to the name the library's column reports.
func LibrarySpelling(t string) string {
	for lib, alts := range ServerSpellings {
		for _, a := range alts {
			t = strings.ReplaceAll(t, a, lib)
		}
	}
	return t
}
