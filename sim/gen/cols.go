// Package gen builds library columns and model values for generated types
// (DESIGN.md 6.4). The bridge between the plain value model of refproto and
// ch-go's typed columns is reflective: it calls the column's own Append and
// Row methods, converting by Go kind.
package gen

import (
	"fmt"
	"math"
	"reflect"
	"strings"

	"github.com/ClickHouse/ch-go/proto"

	"chgosim/refproto"
)

// NewCol constructs the library column for a type of the grammar.
func NewCol(typ string) (proto.Column, error) {
	rt, err := refproto.ParseType(typ)
	if err != nil {
		return nil, err
	}
	return newCol(rt)
}

func newCol(rt *refproto.Type) (proto.Column, error) {
	if rt.Name == "JSON" {
		return new(proto.ColJSONStr), nil
	}
	switch rt.Kind {
	case refproto.KTuple:
		if rt.Name == "Point" {
			return new(proto.ColPoint), nil
		}
		var tu proto.ColTuple
		for _, e := range rt.Elems {
			c, err := newCol(e)
			if err != nil {
				return nil, err
			}
			tu = append(tu, c)
		}
		return tu, nil
	case refproto.KMap:
		k, v := rt.Elems[0].Name, rt.Elems[1].Name
		switch k + "|" + v {
		case "String|String":
			return proto.NewMap[string, string](new(proto.ColStr), new(proto.ColStr)), nil
		case "String|UInt64":
			return proto.NewMap[string, uint64](new(proto.ColStr), new(proto.ColUInt64)), nil
		case "Int32|String":
			return proto.NewMap[int32, string](new(proto.ColInt32), new(proto.ColStr)), nil
		case "String|Array(String)":
			return proto.NewMap[string, []string](new(proto.ColStr), new(proto.ColStr).Array()), nil
		case "LowCardinality(String)|String":
			return proto.NewMap[string, string](new(proto.ColStr).LowCardinality(), new(proto.ColStr)), nil
		}
		return nil, fmt.Errorf("gen: map instantiation %s not available", rt.Name)
	case refproto.KFixed:
		if strings.HasPrefix(rt.Name, "FixedString(") {
			switch rt.Size {
			case 8, 16, 32, 64, 128, 256, 512:
			default:
				c := new(proto.ColFixedStr)
				c.SetSize(rt.Size)
				return c, nil
			}
		}
	case refproto.KArray:
		switch rt.Name {
		case "Array(JSON)":
			return new(proto.ColJSONStr).Array(), nil
		case "Array(Array(String))":
			return proto.NewArray[[]string](new(proto.ColStr).Array()), nil
		case "Array(Array(UInt64))":
			return proto.NewArray[[]uint64](new(proto.ColUInt64).Array()), nil
		case "Array(Array(Nullable(String)))":
			return proto.NewArray[[]proto.Nullable[string]](new(proto.ColStr).Nullable().Array()), nil
		case "Array(Array(Array(UInt16)))":
			return proto.NewArray[[][]uint16](proto.NewArray[[]uint16](new(proto.ColUInt16).Array())), nil
		case "Array(Array(LowCardinality(String)))":
			return proto.NewArray[[]string](proto.NewArray[string](new(proto.ColStr).LowCardinality())), nil
		}
		if rt.Elems[0].Kind == refproto.KFixed && strings.HasPrefix(rt.Elems[0].Name, "FixedString(") {
			switch rt.Elems[0].Size {
			case 8, 16, 32, 64, 128, 256, 512:
			default:
				c := new(proto.ColFixedStr)
				c.SetSize(rt.Elems[0].Size)
				return c.Array(), nil
			}
		}
	}
	var a proto.ColAuto
	if err := a.Infer(proto.ColumnType(rt.Name)); err != nil {
		return nil, err
	}
	return a.Data, nil
}

func wideOf(lo, hi uint64) []byte {
	b := make([]byte, 16)
	for i := 0; i < 8; i++ {
		b[i] = byte(lo >> (8 * i))
		b[8+i] = byte(hi >> (8 * i))
	}
	return b
}

func le64(b []byte) uint64 {
	var v uint64
	for i := 0; i < 8; i++ {
		v |= uint64(b[i]) << (8 * i)
	}
	return v
}

// toRV converts a model value into a reflect.Value of Go type t.
func toRV(t reflect.Type, v any) (reflect.Value, error) {
	out := reflect.New(t).Elem()
	bad := func() (reflect.Value, error) {
		return out, fmt.Errorf("gen: cannot convert %T to %s", v, t)
	}
	switch t.Kind() {
	case reflect.Int, reflect.Int8, reflect.Int16, reflect.Int32, reflect.Int64:
		x, ok := v.(int64)
		if !ok {
			return bad()
		}
		out.SetInt(x)
	case reflect.Uint, reflect.Uint8, reflect.Uint16, reflect.Uint32, reflect.Uint64:
		x, ok := v.(uint64)
		if !ok {
			return bad()
		}
		out.SetUint(x)
	case reflect.Float32:
		x, ok := v.(refproto.F32)
		if !ok {
			return bad()
		}
		// SetFloat would go through float64 and may quieten a signalling NaN;
		// write the bits directly.
		*(out.Addr().Interface().(*float32)) = math.Float32frombits(uint32(x))
	case reflect.Float64:
		x, ok := v.(refproto.F64)
		if !ok {
			return bad()
		}
		out.SetFloat(math.Float64frombits(uint64(x)))
	case reflect.String:
		x, ok := v.(string)
		if !ok {
			return bad()
		}
		out.SetString(x)
	case reflect.Bool:
		x, ok := v.(bool)
		if !ok {
			return bad()
		}
		out.SetBool(x)
	case reflect.Slice:
		if t.Elem().Kind() == reflect.Uint8 {
			x, ok := v.(string)
			if !ok {
				return bad()
			}
			out.SetBytes([]byte(x))
			break
		}
		xs, ok := v.([]any)
		if !ok {
			return bad()
		}
		out.Set(reflect.MakeSlice(t, len(xs), len(xs)))
		for i, x := range xs {
			e, err := toRV(t.Elem(), x)
			if err != nil {
				return out, err
			}
			out.Index(i).Set(e)
		}
	case reflect.Array:
		x, ok := v.(string)
		if !ok || len(x) != t.Len() || t.Elem().Kind() != reflect.Uint8 {
			return bad()
		}
		reflect.Copy(out, reflect.ValueOf([]byte(x)))
	case reflect.Struct:
		name := t.Name()
		switch {
		case strings.HasPrefix(name, "Nullable["):
			if v == nil {
				return out, nil
			}
			e, err := toRV(t.Field(1).Type, v)
			if err != nil {
				return out, err
			}
			out.Field(0).SetBool(true)
			out.Field(1).Set(e)
		case name == "Int128" || name == "UInt128" || name == "Decimal128":
			x, ok := v.(refproto.Wide)
			if !ok || len(x) != 16 {
				return bad()
			}
			out.Field(0).SetUint(le64([]byte(x[:8])))
			out.Field(1).SetUint(le64([]byte(x[8:])))
		case name == "Int256" || name == "UInt256" || name == "Decimal256":
			x, ok := v.(refproto.Wide)
			if !ok || len(x) != 32 {
				return bad()
			}
			out.Field(0).Field(0).SetUint(le64([]byte(x[0:8])))
			out.Field(0).Field(1).SetUint(le64([]byte(x[8:16])))
			out.Field(1).Field(0).SetUint(le64([]byte(x[16:24])))
			out.Field(1).Field(1).SetUint(le64([]byte(x[24:32])))
		case name == "Point":
			x, ok := v.(refproto.Tup)
			if !ok || len(x) != 2 {
				return bad()
			}
			out.Field(0).SetFloat(math.Float64frombits(uint64(x[0].(refproto.F64))))
			out.Field(1).SetFloat(math.Float64frombits(uint64(x[1].(refproto.F64))))
		case strings.HasPrefix(name, "KV["):
			x, ok := v.(refproto.KV)
			if !ok {
				return bad()
			}
			k, err := toRV(t.Field(0).Type, x.K)
			if err != nil {
				return out, err
			}
			val, err := toRV(t.Field(1).Type, x.V)
			if err != nil {
				return out, err
			}
			out.Field(0).Set(k)
			out.Field(1).Set(val)
		case name == "Nothing":
		default:
			return bad()
		}
	default:
		return bad()
	}
	return out, nil
}

// fromRV converts a Go value read from a column back to the model.
func fromRV(v reflect.Value) (any, error) {
	t := v.Type()
	switch t.Kind() {
	case reflect.Int, reflect.Int8, reflect.Int16, reflect.Int32, reflect.Int64:
		return v.Int(), nil
	case reflect.Uint, reflect.Uint8, reflect.Uint16, reflect.Uint32, reflect.Uint64:
		return v.Uint(), nil
	case reflect.Float32:
		return refproto.F32(math.Float32bits(float32(v.Float()))), nil
	case reflect.Float64:
		return refproto.F64(math.Float64bits(v.Float())), nil
	case reflect.String:
		return v.String(), nil
	case reflect.Bool:
		return v.Bool(), nil
	case reflect.Slice:
		if t.Elem().Kind() == reflect.Uint8 {
			return string(v.Bytes()), nil
		}
		out := make([]any, v.Len())
		for i := range out {
			e, err := fromRV(v.Index(i))
			if err != nil {
				return nil, err
			}
			out[i] = e
		}
		return out, nil
	case reflect.Array:
		b := make([]byte, v.Len())
		for i := range b {
			b[i] = byte(v.Index(i).Uint())
		}
		return string(b), nil
	case reflect.Struct:
		name := t.Name()
		switch {
		case strings.HasPrefix(name, "Nullable["):
			if !v.Field(0).Bool() {
				return nil, nil
			}
			return fromRV(v.Field(1))
		case name == "Int128" || name == "UInt128" || name == "Decimal128":
			return refproto.Wide(wideOf(v.Field(0).Uint(), v.Field(1).Uint())), nil
		case name == "Int256" || name == "UInt256" || name == "Decimal256":
			lo := wideOf(v.Field(0).Field(0).Uint(), v.Field(0).Field(1).Uint())
			hi := wideOf(v.Field(1).Field(0).Uint(), v.Field(1).Field(1).Uint())
			return refproto.Wide(append(lo, hi...)), nil
		case name == "Point":
			return refproto.Tup{refproto.F64(math.Float64bits(v.Field(0).Float())), refproto.F64(math.Float64bits(v.Field(1).Float()))}, nil
		case strings.HasPrefix(name, "KV["):
			k, err := fromRV(v.Field(0))
			if err != nil {
				return nil, err
			}
			val, err := fromRV(v.Field(1))
			if err != nil {
				return nil, err
			}
			return refproto.KV{K: k, V: val}, nil
		case name == "Nothing":
			return refproto.Nothing{}, nil
		}
	}
	return nil, fmt.Errorf("gen: cannot read %s", t)
}

// Append adds one model value to a library column through its own API.
func Append(col any, rt *refproto.Type, v any) error {
	switch c := col.(type) {
	case *proto.ColDate:
		*c = append(*c, proto.Date(v.(uint64)))
		return nil
	case *proto.ColDate32:
		*c = append(*c, proto.Date32(v.(int64)))
		return nil
	case *proto.ColDateTime:
		c.AppendRaw(proto.DateTime(v.(uint64)))
		return nil
	case *proto.ColDateTime64:
		c.AppendRaw(proto.DateTime64(v.(int64)))
		return nil
	case *proto.ColEnum:
		for _, d := range rt.Enum {
			if d.Val == v.(int64) {
				c.Append(d.Name)
				return nil
			}
		}
		return fmt.Errorf("gen: %d is not a value of %s", v, rt.Name)
	case *proto.ColInterval:
		c.Append(proto.Interval{Scale: c.Scale, Value: v.(int64)})
		return nil
	case proto.ColTuple:
		tu := v.(refproto.Tup)
		for i, e := range c {
			if err := Append(e, rt.Elems[i], tu[i]); err != nil {
				return err
			}
		}
		return nil
	}
	rv := reflect.ValueOf(col)
	name := "Append"
	var arg any = v
	if rt.Kind == refproto.KMap {
		name = "AppendKV"
		m := v.(refproto.MapV)
		s := make([]any, len(m))
		for i := range m {
			s[i] = m[i]
		}
		arg = s
	}
	m := rv.MethodByName(name)
	if !m.IsValid() {
		return fmt.Errorf("gen: %T has no %s", col, name)
	}
	a, err := toRV(m.Type().In(0), arg)
	if err != nil {
		return fmt.Errorf("%s: %w", rt.Name, err)
	}
	m.Call([]reflect.Value{a})
	return nil
}

// Read returns row i of a library column as a model value.
func Read(col any, rt *refproto.Type, i int) (any, error) {
	switch c := col.(type) {
	case *proto.ColDate:
		return uint64((*c)[i]), nil
	case *proto.ColDate32:
		return int64((*c)[i]), nil
	case *proto.ColDateTime:
		return uint64(c.Data[i]), nil
	case *proto.ColDateTime64:
		return int64(c.Data[i]), nil
	case *proto.ColEnum:
		name := c.Row(i)
		for _, d := range rt.Enum {
			if d.Name == name {
				return d.Val, nil
			}
		}
		// the column was inferred from another (e.g. damaged) definition: the
		// accessor worked, the name stands for itself
		return name, nil
	case *proto.ColInterval:
		return c.Row(i).Value, nil
	case proto.ColTuple:
		tu := make(refproto.Tup, len(c))
		for j, e := range c {
			x, err := Read(e, rt.Elems[j], i)
			if err != nil {
				return nil, err
			}
			tu[j] = x
		}
		return tu, nil
	case *proto.ColAuto:
		return Read(c.Data, rt, i)
	}
	rv := reflect.ValueOf(col)
	name := "Row"
	if rt.Kind == refproto.KMap {
		name = "RowKV"
	}
	m := rv.MethodByName(name)
	if !m.IsValid() {
		return nil, fmt.Errorf("gen: %T has no %s", col, name)
	}
	out := m.Call([]reflect.Value{reflect.ValueOf(i)})[0]
	x, err := fromRV(out)
	if err != nil {
		return nil, err
	}
	if rt.Kind == refproto.KMap {
		s := x.([]any)
		mv := make(refproto.MapV, len(s))
		for j := range s {
			mv[j] = s[j].(refproto.KV)
		}
		return mv, nil
	}
	return x, nil
}

// TouchRows calls the column's own row accessor for every index below rows,
// whatever the values are: used where no model of the values exists (targets
// built by inference from a type the harness did not choose). A panic is the
// caller's finding.
func TouchRows(col any, rows int) {
	switch c := col.(type) {
	case *proto.ColAuto:
		TouchRows(c.Data, rows)
		return
	case proto.ColTuple:
		for _, e := range c {
			TouchRows(e, rows)
		}
		return
	}
	rv := reflect.ValueOf(col)
	for _, name := range []string{"Row", "RowKV"} {
		m := rv.MethodByName(name)
		if !m.IsValid() || m.Type().NumIn() != 1 || m.Type().In(0).Kind() != reflect.Int {
			continue
		}
		for i := 0; i < rows; i++ {
			m.Call([]reflect.Value{reflect.ValueOf(i)})
		}
		return
	}
}

// ReadAll reads every row.
func ReadAll(col any, rt *refproto.Type, rows int) ([]any, error) {
	out := make([]any, rows)
	for i := range out {
		v, err := Read(col, rt, i)
		if err != nil {
			return nil, err
		}
		out[i] = v
	}
	return out, nil
}

// AppendArr adds the values through the column's AppendArr method; it reports
// false when the column has none the bridge can call.
func AppendArr(col any, rt *refproto.Type, vals []any) (ok bool, err error) {
	if rt.Kind == refproto.KMap || rt.Kind == refproto.KTuple {
		return false, nil
	}
	switch c := col.(type) {
	case *proto.ColDate, *proto.ColDate32, *proto.ColDateTime, *proto.ColDateTime64, *proto.ColInterval, proto.ColTuple:
		return false, nil
	case *proto.ColEnum:
		names := make([]string, len(vals))
		for i, v := range vals {
			found := false
			for _, d := range rt.Enum {
				if d.Val == v.(int64) {
					names[i], found = d.Name, true
				}
			}
			if !found {
				return false, fmt.Errorf("gen: %d is not a value of %s", v, rt.Name)
			}
		}
		c.AppendArr(names)
		return true, nil
	}
	m := reflect.ValueOf(col).MethodByName("AppendArr")
	if !m.IsValid() || m.Type().NumIn() != 1 || m.Type().In(0).Kind() != reflect.Slice {
		return false, nil
	}
	a, err := toRV(m.Type().In(0), vals)
	if err != nil {
		return false, nil
	}
	// the caller's slice has spare capacity and is the caller's to reuse: it is
	// overwritten as soon as the call returns, so a column that kept it instead of
	// copying no longer holds what was appended
	b := reflect.MakeSlice(a.Type(), a.Len(), a.Len()+8)
	reflect.Copy(b, a)
	m.Call([]reflect.Value{b})
	zero := reflect.Zero(a.Type().Elem())
	full := b.Slice(0, b.Cap())
	for i := 0; i < full.Len(); i++ {
		full.Index(i).Set(zero)
	}
	return true, nil
}

// Fill appends all values.
func Fill(col any, rt *refproto.Type, vals []any) error {
	for _, v := range vals {
		if err := Append(col, rt, v); err != nil {
			return err
		}
	}
	return nil
}

// Overwrite replaces row i in place when the column's storage allows it
// (slice-backed columns, i.e. the ones sent by reference); it reports false
// when the column has no in-place form.
func Overwrite(col any, rt *refproto.Type, i int, v any) (ok bool) {
	defer func() {
		if recover() != nil {
			ok = false
		}
	}()
	rv := reflect.ValueOf(col)
	if rv.Kind() == reflect.Pointer && rv.Elem().Kind() == reflect.Struct && strings.HasPrefix(rv.Elem().Type().Name(), "ColLowCardinality[") {
		// the values of a LowCardinality column are an exported slice the caller may edit in place
		vals := rv.Elem().FieldByName("Values")
		if !vals.IsValid() || i >= vals.Len() {
			return false
		}
		e, err := toRV(vals.Type().Elem(), v)
		if err != nil {
			return false
		}
		vals.Index(i).Set(e)
		return true
	}
	if e, isEnum := col.(*proto.ColEnum); isEnum {
		// ColEnum.Values is exported for the caller to set
		if i >= len(e.Values) {
			return false
		}
		for _, d := range rt.Enum {
			if d.Val == v.(int64) {
				e.Values[i] = d.Name
				return true
			}
		}
		return false
	}
	if rv.Kind() != reflect.Pointer || rv.Elem().Kind() != reflect.Slice {
		return false
	}
	switch col.(type) {
	case *proto.ColDate, *proto.ColDate32:
		return false
	}
	sl := rv.Elem()
	if i >= sl.Len() {
		return false
	}
	e, err := toRV(sl.Type().Elem(), v)
	if err != nil {
		return false
	}
	sl.Index(i).Set(e)
	return true
}
