package simnet

import (
	"time"

	"chgosim/refproto"
)

// Trigger conditions of a script step: all non-zero conditions must hold.
type Step struct {
	AfterPackets int // client packets parsed so far >= n
	AfterBytes   int // client bytes written so far >= n
	Send         []byte
	Fin, Rst     bool
	Label        string
	Delay        time.Duration // wait this long (simulated) after the step became ready
	armed        bool
	fireAt       time.Duration
	// OnPacket, when set, makes this step wait for one more client packet of
	// any kind and pass it to the function, which returns what to send.
	OnPacket func(p *refproto.ClientPacket) []byte
}

// Server is the scripted reference server (DESIGN 4.5). It parses the client
// stream with the independent codec and plays its script.
type Server struct {
	Parser  refproto.ClientParser
	Packets []*refproto.ClientPacket
	Script  []Step
	pos     int
	sunk    int // after a parse error: bytes drained without understanding them
	tried   int // stream length at which the last parse attempt needed more bytes
	// Auto, when set, is called for every parsed client packet after the
	// script is exhausted (auto-responder for pools).
	Auto func(s *Server, c *Conn, p *refproto.ClientPacket)
	// Log of what was sent: labels in order.
	Sent []string
}

func NewServer(rev int, script []Step) *Server {
	s := &Server{Script: script, tried: -1}
	s.Parser.ServerRev = rev
	return s
}

func (s *Server) canParse(c *Conn) bool {
	n := c.PeerViewLen()
	if s.Parser.Err != nil {
		return n > s.sunk // keeps draining what it cannot understand
	}
	return n > s.Parser.Pos && n != s.tried
}

func (s *Server) stepReady(c *Conn) bool {
	if s.pos >= len(s.Script) {
		return false
	}
	st := &s.Script[s.pos]
	if st.OnPacket != nil {
		return false // fires from the parse path
	}
	if st.AfterPackets > len(s.Packets) {
		return false
	}
	if st.AfterBytes > c.PeerViewLen() {
		return false
	}
	if st.Delay > 0 {
		if !st.armed {
			st.armed = true
			st.fireAt = c.Sim.Now() + st.Delay
			c.Sim.WakeAfter(st.Delay)
			return false
		}
		return c.Sim.Now() >= st.fireAt
	}
	return true
}

func (s *Server) CanStep(c *Conn) bool {
	return s.stepReady(c) || s.canParse(c)
}

func (s *Server) Step(c *Conn) {
	if s.stepReady(c) {
		st := &s.Script[s.pos]
		s.pos++
		s.Sent = append(s.Sent, st.Label)
		c.Sim.Note("srv", "send:"+st.Label)
		if len(st.Send) > 0 {
			c.Enqueue(st.Send)
		}
		if st.Fin {
			c.EndStream(false)
		}
		if st.Rst {
			c.EndStream(true)
		}
		return
	}
	out := c.PeerView()
	c.ConsumeTo(len(out)) // the server process reads bytes as they arrive
	if s.Parser.Err != nil {
		s.sunk = len(out)
		return
	}
	pkt, err := s.Parser.Next(out)
	if err != nil {
		// like a real server: report the malformed input and hang up
		c.Sim.Note("srv", "parse-error")
		s.sunk = len(out)
		var w refproto.W
		refproto.EncodeException(&w, []refproto.Exception{{Code: 33, Name: "DB::Exception", Message: "DB::Exception: reference server cannot parse the client stream: " + err.Error()}})
		c.Enqueue(w.B)
		c.EndStream(false)
		s.pos = len(s.Script)
		return
	}
	if pkt == nil {
		s.tried = len(out)
		return
	}
	s.tried = -1
	s.Packets = append(s.Packets, pkt)
	c.Sim.Note("srv", "recv:"+pkt.Kind.String())
	if s.pos < len(s.Script) && s.Script[s.pos].OnPacket != nil {
		st := &s.Script[s.pos]
		s.pos++
		if b := st.OnPacket(pkt); len(b) > 0 {
			c.Enqueue(b)
		}
		s.Sent = append(s.Sent, st.Label)
		return
	}
	if s.pos >= len(s.Script) && s.Auto != nil {
		s.Auto(s, c, pkt)
	}
}

// Done reports whether the whole script was played.
func (s *Server) Done() bool { return s.pos >= len(s.Script) }

// ScriptPos is the number of steps played.
func (s *Server) ScriptPos() int { return s.pos }
