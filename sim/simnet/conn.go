// Package simnet is the simulated TCP connection, dialer and scripted peer of
// engine A (DESIGN.md 4.4, 4.5).
package simnet

import (
	"errors"
	"io"
	"net"
	"os"
	"sync"
	"syscall"
	"time"

	"chgosim/sched"
)

// WriteRec is one Write call accepted (fully or partly) by the connection.
type WriteRec struct {
	Gid  uint64
	Step int
	Off  int
	N    int
	At   time.Duration
}

// Peer is the remote end, driven by the scheduler through environment actions.
type Peer interface {
	CanStep(c *Conn) bool
	Step(c *Conn)
}

type Conn struct {
	Sim  *sched.Sim
	ID   int
	Peer Peer

	mu    sync.Mutex
	inbox []byte // delivered, readable now
	queue []byte // sent by the peer, not delivered yet
	finQ  bool   // FIN follows the queued bytes
	rstQ  bool   // RST follows the queued bytes
	fin   bool
	rst   bool
	wake  chan struct{}
	rdl   time.Time
	wdl   time.Time

	// client -> server
	Out      []byte
	Writes   []WriteRec
	Consumed int

	closed     bool
	CloseCount int
	CloseGids  []uint64
	CloseStep  int
	CloseAt    time.Duration
	Calls      int      // calls of any method (Read, Write, Close, Set*Deadline)
	CallLog    []string // last few calls: "step:gid:what"

	// fault plan (set before the run or by environment actions)
	WriteErrAfter     int           // fail writes once this many bytes were accepted; <0: never
	CutAfter          int           // the peer's stream ends after this many bytes; <0: never
	StopReadAt        int           // the peer process stops reading after this many client bytes (stuck server, black hole); <0: never
	PauseReadAt       int           // the peer process stops reading after this many client bytes ... (<0: never)
	PauseFor          time.Duration // ... for this long (a busy server), and then carries on
	pausedAt          time.Duration // when the pause began (-1: not yet)
	WriteBlockedUntil time.Duration // simulated time until which no Write makes progress (send buffer full, peer not reading); 0: never
	wbusy             bool          // a Write is in progress: like the fd write lock, a second Write waits for it whatever the deadline
	CloseErr          bool          // Close releases the connection but reports an error (tls.Conn does when close_notify cannot be written)
	CutRST            bool
	Window            int  // >0: Write blocks while more than Window bytes are unconsumed
	ReadCap           int  // >0: the next Read returns at most this many bytes (short read)
	EmptyReads        int  // per-mille chance that a delivery is preceded by an empty read
	EmptyNext         bool // the next Read that has data returns (0, nil) first, as for a zero-length segment of the peer
	enq               int  // bytes accepted from the peer so far (before cut)
	Delivered         int
	ReadBytes         int

	// fired counters
	Fired map[string]int
}

func NewConn(s *sched.Sim, id int, p Peer) *Conn {
	return &Conn{Sim: s, ID: id, Peer: p, wake: make(chan struct{}), WriteErrAfter: -1, CutAfter: -1, StopReadAt: -1, PauseReadAt: -1, pausedAt: -1, Fired: map[string]int{}}
}

type addr string

func (a addr) Network() string { return "tcp" }
func (a addr) String() string  { return string(a) }

func (c *Conn) LocalAddr() net.Addr  { return addr("10.0.0.1:40000") }
func (c *Conn) RemoteAddr() net.Addr { return addr("10.0.0.2:9000") }

//go:norace
func (c *Conn) lock() { sched.RaceDisable(); c.mu.Lock() }

//go:norace
func (c *Conn) unlock() { c.mu.Unlock(); sched.RaceEnable() }

//go:norace
func (c *Conn) signal() {
	close(c.wake)
	c.wake = make(chan struct{})
}

//go:norace
func (c *Conn) call(what string) {
	c.Calls++
	if len(c.CallLog) < 64 {
		c.CallLog = append(c.CallLog, what)
	}
}

// appendBytes and copyBytes avoid runtime.slicecopy / growslice, which report
// their accesses to the race detector even when called from //go:norace code:
// the connection's buffers are shared between the scheduler and the client
// goroutines under a lock whose synchronisation is deliberately hidden.
//
//go:norace
func appendBytes(dst, src []byte) []byte {
	n := len(dst) + len(src)
	if n > cap(dst) {
		c := 2*cap(dst) + len(src) + 64
		nd := make([]byte, len(dst), c)
		for i := range dst {
			nd[i] = dst[i]
		}
		dst = nd
	}
	l := len(dst)
	dst = dst[:n]
	for i := range src {
		dst[l+i] = src[i]
	}
	return dst
}

//go:norace
func copyBytes(dst, src []byte) int {
	n := len(src)
	if len(dst) < n {
		n = len(dst)
	}
	for i := 0; i < n; i++ {
		dst[i] = src[i]
	}
	return n
}

func opErr(op string, err error) error {
	return &net.OpError{Op: op, Net: "tcp", Source: addr("10.0.0.1:40000"), Addr: addr("10.0.0.2:9000"), Err: err}
}

var errReset = &os.SyscallError{Syscall: "read", Err: syscall.ECONNRESET}
var errPipe = &os.SyscallError{Syscall: "write", Err: syscall.EPIPE}

//go:norace
func (c *Conn) Read(p []byte) (int, error) {
	c.Sim.Yield("conn.Read")
	for {
		c.lock()
		c.call("Read")
		if c.closed {
			c.unlock()
			return 0, opErr("read", net.ErrClosed)
		}
		if len(p) == 0 {
			c.unlock()
			return 0, nil
		}
		if len(c.inbox) > 0 {
			if c.EmptyNext {
				// io.Reader allows it, net.Pipe does it for an empty Write of the peer
				c.EmptyNext = false
				c.Fired["empty_read"]++
				c.unlock()
				return 0, nil
			}
			n := len(c.inbox)
			if n > len(p) {
				n = len(p)
			}
			if c.ReadCap > 0 && n > c.ReadCap {
				n = c.ReadCap
				c.Fired["short_read"]++
			}
			c.ReadCap = 0
			copyBytes(p, c.inbox[:n])
			c.inbox = c.inbox[n:]
			c.ReadBytes += n
			c.unlock()
			return n, nil
		}
		if c.rst {
			c.unlock()
			return 0, opErr("read", errReset)
		}
		if c.fin {
			c.unlock()
			return 0, io.EOF
		}
		dl := c.rdl
		if !dl.IsZero() && !time.Now().Before(dl) {
			c.Fired["read_timeout"]++
			c.unlock()
			return 0, opErr("read", os.ErrDeadlineExceeded)
		}
		w := c.wake
		c.unlock()
		sched.RaceDisable()
		if dl.IsZero() {
			<-w
		} else {
			t := time.NewTimer(time.Until(dl))
			select {
			case <-w:
			case <-t.C:
			}
			t.Stop()
		}
		sched.RaceEnable()
		c.Sim.Yield("conn.Read.wake")
	}
}

//go:norace
func (c *Conn) Write(p []byte) (int, error) {
	c.Sim.Yield("conn.Write")
	// the fd write lock: concurrent Writes are serialised, and waiting for the
	// lock is not subject to the write deadline (only closing releases it)
	for {
		c.lock()
		if c.closed {
			c.unlock()
			return 0, opErr("write", net.ErrClosed)
		}
		if !c.wbusy {
			c.wbusy = true
			c.unlock()
			break
		}
		c.Fired["write_lock_wait"]++
		w := c.wake
		c.unlock()
		sched.RaceDisable()
		<-w
		sched.RaceEnable()
		c.Sim.Yield("conn.Write.lockwake")
	}
	defer func() {
		c.lock()
		c.wbusy = false
		c.signal()
		c.unlock()
	}()
	// Like a socket: what fits into the peer's window goes out at once, the rest
	// waits; a deadline, a reset or a Close that ends the wait leaves a write that
	// reports the bytes already out together with its error.
	done := 0
	for {
		c.lock()
		c.call("Write")
		if c.closed {
			c.unlock()
			return done, opErr("write", net.ErrClosed)
		}
		if c.rst {
			c.unlock()
			return done, opErr("write", errPipe)
		}
		dl := c.wdl
		if !dl.IsZero() && !time.Now().Before(dl) {
			c.Fired["write_timeout"]++
			if done > 0 {
				c.Fired["partial_write"]++
			}
			c.unlock()
			return done, opErr("write", os.ErrDeadlineExceeded)
		}
		if c.WriteBlockedUntil > 0 && c.Sim.Now() < c.WriteBlockedUntil {
			// nothing goes out for now: wait for the deadline, a Close, or the end of the blockage
			c.Fired["write_blocked"]++
			w := c.wake
			until := c.WriteBlockedUntil - c.Sim.Now()
			c.unlock()
			sched.RaceDisable()
			wait := until
			if !dl.IsZero() && time.Until(dl) < wait {
				wait = time.Until(dl)
			}
			t := time.NewTimer(wait)
			select {
			case <-w:
			case <-t.C:
			}
			t.Stop()
			sched.RaceEnable()
			c.Sim.Yield("conn.Write.wake")
			continue
		}
		n := len(p) - done
		if c.Window > 0 {
			room := c.Window - (len(c.Out) - c.Consumed)
			if room <= 0 {
				c.Fired["backpressure_block"]++
				w := c.wake
				c.unlock()
				sched.RaceDisable()
				if dl.IsZero() {
					<-w
				} else {
					t := time.NewTimer(time.Until(dl))
					select {
					case <-w:
					case <-t.C:
					}
					t.Stop()
				}
				sched.RaceEnable()
				c.Sim.Yield("conn.Write.wake")
				continue
			}
			if n > room {
				// a large write against a small window makes progress in pieces of at
				// least 1/32 of what is left (so that it costs hundreds of decisions,
				// not tens of thousands)
				if n/32 > room {
					room = n / 32
				}
				n = room
			}
		}
		var err error
		if c.WriteErrAfter >= 0 {
			room := c.WriteErrAfter - len(c.Out)
			if room < 0 {
				room = 0
			}
			if n > room {
				// the write that crosses the limit fails, having put `room` bytes on the
				// wire (a write that fits entirely succeeds: the kernel reports the
				// failure on the next one)
				n = room
				err = opErr("write", errPipe)
				c.Fired["write_err"]++
			}
		}
		if n > 0 {
			c.Writes = append(c.Writes, WriteRec{Gid: sched.Gid(), Step: c.Sim.Step, Off: len(c.Out), N: n, At: c.Sim.Now()})
			c.Out = appendBytes(c.Out, p[done:done+n])
			done += n
			c.signal() // the peer has something to read
		}
		c.unlock()
		if err != nil || done == len(p) {
			return done, err
		}
	}
}

//go:norace
func (c *Conn) Close() error {
	// never parks: called with Client.mux held
	c.lock()
	defer c.unlock()
	c.call("Close")
	c.CloseCount++
	c.CloseGids = append(c.CloseGids, sched.Gid())
	if c.closed {
		return opErr("close", net.ErrClosed)
	}
	c.closed = true
	c.CloseStep = c.Sim.Step
	c.CloseAt = c.Sim.Now()
	c.signal()
	if c.CloseErr {
		c.Fired["close_err"]++
		return opErr("close", syscall.EPIPE)
	}
	return nil
}

//go:norace
func (c *Conn) SetDeadline(t time.Time) error {
	c.lock()
	defer c.unlock()
	c.call("SetDeadline")
	if c.closed {
		return opErr("set", net.ErrClosed)
	}
	c.rdl, c.wdl = t, t
	c.signal()
	return nil
}

//go:norace
func (c *Conn) SetReadDeadline(t time.Time) error {
	c.lock()
	defer c.unlock()
	c.call("SetReadDeadline")
	if c.closed {
		return opErr("set", net.ErrClosed)
	}
	c.rdl = t
	c.signal()
	return nil
}

//go:norace
func (c *Conn) SetWriteDeadline(t time.Time) error {
	c.lock()
	defer c.unlock()
	c.call("SetWriteDeadline")
	if c.closed {
		return opErr("set", net.ErrClosed)
	}
	c.wdl = t
	c.signal()
	return nil
}

// ---- peer / scheduler side (always called on the scheduler goroutine) ----

// Enqueue is the peer sending bytes. Honour the cut fault.
//
//go:norace
func (c *Conn) Enqueue(b []byte) {
	c.lock()
	defer c.unlock()
	if c.finQ || c.rstQ {
		return
	}
	if c.CutAfter >= 0 && c.enq+len(b) >= c.CutAfter {
		keep := c.CutAfter - c.enq
		if keep < 0 {
			keep = 0
		}
		c.queue = appendBytes(c.queue, b[:keep])
		c.enq += keep
		if c.CutRST {
			c.rstQ = true
			c.Fired["cut_rst"]++
		} else {
			c.finQ = true
			c.Fired["cut_fin"]++
		}
		return
	}
	c.queue = appendBytes(c.queue, b)
	c.enq += len(b)
}

// EndStream is the peer closing (FIN) or aborting (RST) after what is queued.
//
//go:norace
func (c *Conn) EndStream(rst bool) {
	c.lock()
	defer c.unlock()
	if c.finQ || c.rstQ {
		return
	}
	if rst {
		c.rstQ = true
	} else {
		c.finQ = true
	}
}

// Deliverable reports whether a deliver action would change anything.
//
//go:norace
func (c *Conn) Deliverable() bool {
	c.lock()
	defer c.unlock()
	if c.closed {
		return false
	}
	return len(c.queue) > 0 || (c.finQ && !c.fin) || (c.rstQ && !c.rst)
}

// ReadLen is the number of bytes the client has taken out of the connection.
//
//go:norace
func (c *Conn) ReadLen() int {
	c.lock()
	defer c.unlock()
	return c.ReadBytes
}

// Enq is the number of bytes the peer has sent so far.
//
//go:norace
func (c *Conn) Enq() int {
	c.lock()
	defer c.unlock()
	return c.enq
}

// QueueLen is the number of bytes in flight.
//
//go:norace
func (c *Conn) QueueLen() int {
	c.lock()
	defer c.unlock()
	return len(c.queue)
}

// Deliver moves up to n in-flight bytes to the readable side; when nothing is
// left it delivers the pending FIN/RST.
//
//go:norace
func (c *Conn) Deliver(n int, readCap int) {
	c.lock()
	defer c.unlock()
	if len(c.queue) > 0 {
		if n > len(c.queue) {
			n = len(c.queue)
		}
		if n < 1 {
			n = 1
		}
		c.inbox = appendBytes(c.inbox, c.queue[:n])
		c.queue = c.queue[n:]
		c.Delivered += n
		c.ReadCap = readCap
		if c.EmptyReads > 0 && c.Sim.C.Draw("empty?", 1000) < c.EmptyReads {
			c.EmptyNext = true
		}
	}
	if len(c.queue) == 0 {
		if c.rstQ {
			c.rst = true
		} else if c.finQ {
			c.fin = true
		}
	}
	c.signal()
}

// Consume is the peer taking n client bytes off the wire (back-pressure).
//
//go:norace
func (c *Conn) Consume(n int) {
	c.lock()
	defer c.unlock()
	c.Consumed += n
	if c.Consumed > len(c.Out) {
		c.Consumed = len(c.Out)
	}
	c.signal()
}

// ConsumeTo marks the first n client bytes as read by the peer process.
//
//go:norace
func (c *Conn) ConsumeTo(n int) {
	c.lock()
	defer c.unlock()
	if n > len(c.Out) {
		n = len(c.Out)
	}
	n = c.peerLimit(n)
	if n > c.Consumed {
		c.Consumed = n
		c.signal()
	}
}

// Snapshot of client->server bytes (copy).
//
//go:norace
func (c *Conn) OutCopy() []byte {
	c.lock()
	defer c.unlock()
	return appendBytes(nil, c.Out)
}

// peerLimit caps n, the number of client bytes the peer process may have read
// by now (called with the lock held).
func (c *Conn) peerLimit(n int) int {
	if c.StopReadAt >= 0 && n > c.StopReadAt {
		n = c.StopReadAt
	}
	if c.PauseReadAt >= 0 && n > c.PauseReadAt {
		if c.pausedAt < 0 {
			c.pausedAt = c.Sim.Now()
			c.Fired["peer_pauses_reading"]++
			c.Sim.WakeAfter(c.PauseFor + time.Millisecond)
		}
		if c.Sim.Now() < c.pausedAt+c.PauseFor {
			n = c.PauseReadAt
		}
	}
	return n
}

// PeerView is what the peer process has been able to read of the client's
// stream: everything, unless the peer stopped reading (StopReadAt).
//
//go:norace
func (c *Conn) PeerView() []byte {
	c.lock()
	defer c.unlock()
	n := c.peerLimit(len(c.Out))
	return appendBytes(nil, c.Out[:n])
}

//go:norace
func (c *Conn) PeerViewLen() int {
	c.lock()
	defer c.unlock()
	return c.peerLimit(len(c.Out))
}

//go:norace
func (c *Conn) OutLen() int {
	c.lock()
	defer c.unlock()
	return len(c.Out)
}

//go:norace
func (c *Conn) IsClosed() bool {
	c.lock()
	defer c.unlock()
	return c.closed
}

//go:norace
func (c *Conn) CallCount() int {
	c.lock()
	defer c.unlock()
	return c.Calls
}

// ForceWake wakes blocked calls (end-of-run cleanup: acts like an RST).
//
//go:norace
func (c *Conn) ForceReset() {
	c.lock()
	defer c.unlock()
	c.rst = true
	c.rstQ = true
	c.inbox = nil
	c.signal()
}

var _ net.Conn = (*Conn)(nil)

// ErrDial is returned by a failing simulated dial.
var ErrDial = errors.New("simnet: connection refused")
