package simnet

import (
	"context"
	"fmt"
	"net"
	"time"

	"chgosim/sched"
)

// World glues connections, peers and delivery policy to the scheduler.
type World struct {
	Sim   *sched.Sim
	Conns []*Conn

	// Delivery policy (drawn per run by the scenario):
	//   0 everything in flight at once, 1 one byte at a time,
	//   2 random chunks of at most ChunkMax bytes, 3 explicit Plan of segment sizes
	DeliverMode int
	ChunkMax    int
	Plan        []int
	Gaps        map[int]time.Duration // plan index -> idle time after that segment was delivered
	planPos     int
	holdUntil   time.Duration
	ShortReads  int // per-mille chance that a delivery is followed by a short read
}

func NewWorld(s *sched.Sim) *World { return &World{Sim: s, ChunkMax: 64} }

func (w *World) chunk(c *Conn) (n int, readCap int) {
	q := c.QueueLen()
	switch w.DeliverMode {
	case 1:
		n = 1
		if c.Delivered > 4096 {
			n = q // byte-at-a-time for the first 4 KiB of a connection, then whatever is in flight
		}
	case 2:
		m := w.ChunkMax
		if q/64 > m {
			m = q / 64 // keep the number of deliveries of a big transfer bounded
		}
		if m > q {
			m = q
		}
		n = 1 + w.Sim.C.Draw("chunk", m)
	case 3:
		if w.planPos < len(w.Plan) {
			n = w.Plan[w.planPos]
			if g := w.Gaps[w.planPos]; g > 0 {
				w.holdUntil = w.Sim.Now() + g
				w.Sim.WakeAfter(g)
				w.Sim.Note("net", "gap "+g.String())
			}
			w.planPos++
		} else {
			n = q
		}
	default:
		n = q
	}
	if w.ShortReads > 0 && n > 1 && w.Sim.C.Draw("short?", 1000) < w.ShortReads {
		readCap = 1 + w.Sim.C.Draw("short.n", n-1)
	}
	return n, readCap
}

// NewConn creates a connection to the given peer and registers its two
// environment actions: network delivery and the peer's reaction.
func (w *World) NewConn(p Peer) *Conn {
	c := NewConn(w.Sim, len(w.Conns), p)
	w.Conns = append(w.Conns, c)
	id := c.ID
	w.Sim.AddEnv(&sched.EnvFunc{
		N: fmt.Sprintf("net%d", id),
		E: func() bool { return c.Deliverable() && w.Sim.Now() >= w.holdUntil },
		R: func() {
			n, rc := w.chunk(c)
			c.Deliver(n, rc)
		},
	})
	if p != nil {
		w.Sim.AddEnv(&sched.EnvFunc{
			N: fmt.Sprintf("srv%d", id),
			E: func() bool { return !c.IsClosed() && p.CanStep(c) },
			R: func() { p.Step(c) },
		})
	}
	return c
}

// SetPlan switches to explicit segmentation from now on.
func (w *World) SetPlan(sizes []int, gaps map[int]time.Duration) {
	w.DeliverMode, w.Plan, w.Gaps, w.planPos = 3, sizes, gaps, 0
}

// Cleanup resets every connection so that blocked calls return.
func (w *World) Cleanup() {
	for _, c := range w.Conns {
		c.ForceReset()
	}
}

// Dialer implements ch.Dialer over the world.
type Dialer struct {
	W       *World
	NewPeer func(n int) Peer
	Fail    map[int]bool // dial number -> refuse
	Dialed  []*Conn
	Dials   int
	OnConn  func(n int, c *Conn) // configure the n-th connection before it is handed out
}

func (d *Dialer) DialContext(ctx context.Context, network, address string) (net.Conn, error) {
	d.W.Sim.Yield("dial")
	n := d.Dials
	d.Dials++
	if err := ctx.Err(); err != nil {
		return nil, err
	}
	if d.Fail[n] {
		return nil, &net.OpError{Op: "dial", Net: "tcp", Err: ErrDial}
	}
	c := d.W.NewConn(d.NewPeer(n))
	if d.OnConn != nil {
		d.OnConn(n, c)
	}
	d.Dialed = append(d.Dialed, c)
	return c, nil
}
