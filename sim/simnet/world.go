package simnet

import (
	"context"
	"fmt"
	"net"

	"chgosim/sched"
)

// World glues connections, peers and delivery policy to the scheduler.
type World struct {
	Sim   *sched.Sim
	Conns []*Conn

	// Delivery policy (drawn per run by the scenario):
	//   0 everything in flight at once, 1 one byte at a time,
	//   2 random chunks of at most ChunkMax bytes, 3 explicit Plan of segment sizes
	DeliverMode int
	ChunkMax    int
	Plan        []int
	planPos     int
	ShortReads  int // per-mille chance that a delivery is followed by a short read
}

func NewWorld(s *sched.Sim) *World { return &World{Sim: s, ChunkMax: 64} }

func (w *World) chunk(c *Conn) (n int, readCap int) {
	q := c.QueueLen()
	switch w.DeliverMode {
	case 1:
		n = 1
	case 2:
		m := w.ChunkMax
		if m > q {
			m = q
		}
		n = 1 + w.Sim.C.Draw("chunk", m)
	case 3:
		if w.planPos < len(w.Plan) {
			n = w.Plan[w.planPos]
			w.planPos++
		} else {
			n = q
		}
	default:
		n = q
	}
	if w.ShortReads > 0 && n > 1 && w.Sim.C.Draw("short?", 1000) < w.ShortReads {
		readCap = 1 + w.Sim.C.Draw("short.n", n-1)
	}
	return n, readCap
}

// NewConn creates a connection to the given peer and registers its two
// environment actions: network delivery and the peer's reaction.
func (w *World) NewConn(p Peer) *Conn {
	c := NewConn(w.Sim, len(w.Conns), p)
	w.Conns = append(w.Conns, c)
	id := c.ID
	w.Sim.AddEnv(&sched.EnvFunc{
		N: fmt.Sprintf("net%d", id),
		E: c.Deliverable,
		R: func() {
			n, rc := w.chunk(c)
			c.Deliver(n, rc)
		},
	})
	if p != nil {
		w.Sim.AddEnv(&sched.EnvFunc{
			N: fmt.Sprintf("srv%d", id),
			E: func() bool { return !c.IsClosed() && p.CanStep(c) },
			R: func() { p.Step(c) },
		})
	}
	return c
}

// Cleanup resets every connection so that blocked calls return.
func (w *World) Cleanup() {
	for _, c := range w.Conns {
		c.ForceReset()
	}
}

// Dialer implements ch.Dialer over the world.
type Dialer struct {
	W       *World
	NewPeer func(n int) Peer
	Fail    map[int]bool // dial number -> refuse
	Dialed  []*Conn
	Dials   int
}

func (d *Dialer) DialContext(ctx context.Context, network, address string) (net.Conn, error) {
	d.W.Sim.Yield("dial")
	n := d.Dials
	d.Dials++
	if err := ctx.Err(); err != nil {
		return nil, err
	}
	if d.Fail[n] {
		return nil, &net.OpError{Op: "dial", Net: "tcp", Err: ErrDial}
	}
	c := d.W.NewConn(d.NewPeer(n))
	d.Dialed = append(d.Dialed, c)
	return c, nil
}
