// Command weave splices simrt.Yield("file:line") scheduling points in front of
// every statement of every function body of the Go files in the given
// directories. Insertion is textual, at the statement's byte offset on the same
// line, so line numbers are preserved. See DESIGN.md section 4.2.
//
// usage: weave -import <simrt import path> [prefix=]dir...
package main

import (
	"flag"
	"fmt"
	"go/ast"
	"go/parser"
	"go/token"
	"os"
	"path/filepath"
	"sort"
	"strings"
)

type ins struct {
	off  int
	del  int // bytes of the original replaced by text
	text string
	seq  int
}

type weaver struct {
	src   []byte
	fset  *token.FileSet
	file  string // base name
	ins   []ins
	sites []string
	count map[int]int // line -> n
}

func (w *weaver) site(pos token.Pos, suffix string) string {
	line := w.fset.Position(pos).Line
	n := w.count[line]
	w.count[line]++
	s := fmt.Sprintf("%s:%d", w.file, line)
	if n > 0 {
		s += fmt.Sprintf(".%d", n)
	}
	if suffix != "" {
		s += ":" + suffix
	}
	w.sites = append(w.sites, s)
	return s
}

func (w *weaver) add(pos token.Pos, text string) {
	w.ins = append(w.ins, ins{off: w.fset.Position(pos).Offset, text: text, seq: len(w.ins)})
}

func (w *weaver) replace(pos, end token.Pos, text string) {
	a, b := w.fset.Position(pos).Offset, w.fset.Position(end).Offset
	// keep the line count: re-add the newlines of the replaced range
	text += strings.Repeat("\n", strings.Count(string(w.src[a:b]), "\n"))
	w.ins = append(w.ins, ins{off: a, del: b - a, text: text, seq: len(w.ins)})
}

func (w *weaver) text(n ast.Node) string {
	return string(w.src[w.fset.Position(n.Pos()).Offset:w.fset.Position(n.End()).Offset])
}

// rewriteSelect turns a select without default into a form where the choice
// among several ready cases is made by simrt.Sel (i.e. by the simulator)
// instead of the runtime's random pick: the cases are polled without blocking
// in rotated order starting at the chosen index; if none is ready, the
// original blocking select runs (a blocked goroutine is woken by exactly one
// channel operation, so that path is deterministic). Case bodies stay where
// they are, as the clauses of a switch over the index of the case that fired.
func (w *weaver) rewriteSelect(v *ast.SelectStmt, locked bool) bool {
	n := len(v.Body.List)
	if n < 2 {
		return false
	}
	type cs struct {
		recv     bool
		ch       string
		val      string // send value
		lhs      []string
		define   bool
	}
	var cases []cs
	for _, c := range v.Body.List {
		cc := c.(*ast.CommClause)
		if cc.Comm == nil {
			return false // has default
		}
		var k cs
		switch st := cc.Comm.(type) {
		case *ast.SendStmt:
			k.ch, k.val = w.text(st.Chan), w.text(st.Value)
		case *ast.ExprStmt:
			u, ok := st.X.(*ast.UnaryExpr)
			if !ok || u.Op != token.ARROW {
				return false
			}
			k.recv, k.ch = true, w.text(u.X)
		case *ast.AssignStmt:
			if len(st.Rhs) != 1 {
				return false
			}
			u, ok := st.Rhs[0].(*ast.UnaryExpr)
			if !ok || u.Op != token.ARROW {
				return false
			}
			k.recv, k.ch = true, w.text(u.X)
			k.define = st.Tok == token.DEFINE
			for _, l := range st.Lhs {
				k.lhs = append(k.lhs, w.text(l))
			}
		default:
			return false
		}
		cases = append(cases, k)
	}
	site := w.site(v.Pos(), "select")
	var pre strings.Builder
	fmt.Fprintf(&pre, "{ _sk := simrt.Sel(%q, %d); _sr := -1; ", site, n)
	comm := make([]string, n)
	for i, k := range cases {
		fmt.Fprintf(&pre, "_c%d := %s; ", i, k.ch)
		switch {
		case !k.recv:
			fmt.Fprintf(&pre, "_x%d := %s; ", i, k.val)
			comm[i] = fmt.Sprintf("_c%d <- _x%d", i, i)
		case len(k.lhs) == 0:
			comm[i] = fmt.Sprintf("<-_c%d", i)
		case len(k.lhs) == 1:
			fmt.Fprintf(&pre, "_v%d := simrt.Zero(_c%d); _ = _v%d; ", i, i, i)
			comm[i] = fmt.Sprintf("_v%d = <-_c%d", i, i)
		default:
			fmt.Fprintf(&pre, "_v%d := simrt.Zero(_c%d); _ok%d := false; _, _ = _v%d, _ok%d; ", i, i, i, i, i)
			comm[i] = fmt.Sprintf("_v%d, _ok%d = <-_c%d", i, i, i)
		}
	}
	fmt.Fprintf(&pre, "for _si := 0; _si < %d && _sr < 0; _si++ { switch (_sk + _si) %% %d { ", n, n)
	for i := range cases {
		fmt.Fprintf(&pre, "case %d: select { case %s: _sr = %d; default: }; ", i, comm[i], i)
	}
	pre.WriteString("} }; if _sr < 0 { select { ")
	for i := range cases {
		fmt.Fprintf(&pre, "case %s: _sr = %d; ", comm[i], i)
	}
	pre.WriteString("} }; switch _sr {")
	// replace "select {" (up to and including the opening brace)
	w.replace(v.Pos(), v.Body.Lbrace+1, pre.String())
	for i, c := range v.Body.List {
		cc := c.(*ast.CommClause)
		k := cases[i]
		hdr := fmt.Sprintf("case %d: ", i)
		switch len(k.lhs) {
		case 1:
			op := "="
			if k.define {
				op = ":="
			}
			hdr += fmt.Sprintf("%s %s _v%d; ", k.lhs[0], op, i)
			if k.define && k.lhs[0] != "_" {
				hdr += fmt.Sprintf("_ = %s; ", k.lhs[0])
			}
		case 2:
			op := "="
			if k.define {
				op = ":="
			}
			hdr += fmt.Sprintf("%s, %s %s _v%d, _ok%d; ", k.lhs[0], k.lhs[1], op, i, i)
		}
		w.replace(cc.Pos(), cc.Colon+1, hdr)
		w.weaveList(cc.Body, locked)
	}
	w.add(v.Body.Rbrace, "default: panic(\"simrt: select fired no case\"); ")
	w.add(v.End(), " }")
	return true
}

// lockKind reports +1 for X.Lock()/X.RLock(), -1 for X.Unlock()/X.RUnlock().
func lockKind(s ast.Stmt) int {
	es, ok := s.(*ast.ExprStmt)
	if !ok {
		return 0
	}
	call, ok := es.X.(*ast.CallExpr)
	if !ok || len(call.Args) != 0 {
		return 0
	}
	sel, ok := call.Fun.(*ast.SelectorExpr)
	if !ok {
		return 0
	}
	switch sel.Sel.Name {
	case "Lock", "RLock":
		return 1
	case "Unlock", "RUnlock":
		return -1
	}
	return 0
}

func isOnceDo(call *ast.CallExpr) bool {
	sel, ok := call.Fun.(*ast.SelectorExpr)
	if !ok || sel.Sel.Name != "Do" || len(call.Args) != 1 {
		return false
	}
	if _, ok := call.Args[0].(*ast.FuncLit); !ok {
		return false
	}
	// receiver expression text contains "once" (closeOnce, errOnce, once ...)
	var name string
	switch x := sel.X.(type) {
	case *ast.Ident:
		name = x.Name
	case *ast.SelectorExpr:
		name = x.Sel.Name
	}
	return strings.Contains(strings.ToLower(name), "once")
}

// funcLits weaves function literals found in the expressions of a statement
// (not descending into nested statements lists, which weaveStmt handles).
func (w *weaver) funcLits(n ast.Node, locked bool) {
	if n == nil {
		return
	}
	ast.Inspect(n, func(x ast.Node) bool {
		switch v := x.(type) {
		case *ast.CallExpr:
			if isOnceDo(v) {
				// never park inside sync.Once.Do: visit receiver only
				return false
			}
		case *ast.FuncLit:
			// A literal defined while a lock is held may still be executed
			// later (goroutine, callback); its body is woven normally unless
			// it is invoked right here, which we cannot tell in general: be
			// conservative and skip bodies created under a lock.
			if !locked {
				w.weaveList(v.Body.List, false)
			}
			return false
		case *ast.BlockStmt:
			return false
		}
		return true
	})
}

func (w *weaver) weaveList(list []ast.Stmt, locked bool) {
	for _, s := range list {
		k := lockKind(s)
		if k < 0 {
			locked = false
		}
		w.weaveStmt(s, locked, true)
		if k > 0 {
			locked = true
		}
	}
}

func (w *weaver) weaveStmt(s ast.Stmt, locked bool, inList bool) {
	switch v := s.(type) {
	case *ast.LabeledStmt:
		// nothing in front of the label; the labelled statement's nested blocks are woven
		w.weaveStmt(v.Stmt, locked, false)
		return
	case *ast.DeferStmt:
		if !locked && inList {
			a := w.site(v.Pos(), "defer-after")
			b := w.site(v.Pos(), "defer-before")
			w.add(v.Pos(), fmt.Sprintf("defer simrt.Yield(%q); ", a))
			w.add(v.End(), fmt.Sprintf("; defer simrt.Yield(%q)", b))
		}
		w.funcLits(v.Call, locked)
		return
	case *ast.EmptyStmt:
		return
	}
	if sel, ok := s.(*ast.SelectStmt); ok && !locked && inList {
		if w.rewriteSelect(sel, locked) {
			return
		}
	}
	if !locked && inList {
		w.add(s.Pos(), fmt.Sprintf("simrt.Yield(%q); ", w.site(s.Pos(), "")))
	}
	switch v := s.(type) {
	case *ast.BlockStmt:
		w.weaveList(v.List, locked)
	case *ast.IfStmt:
		w.funcLits(v.Init, locked)
		w.funcLits(v.Cond, locked)
		w.weaveList(v.Body.List, locked)
		if v.Else != nil {
			w.weaveStmt(v.Else, locked, false)
		}
	case *ast.ForStmt:
		w.funcLits(v.Init, locked)
		w.funcLits(v.Cond, locked)
		w.funcLits(v.Post, locked)
		w.weaveList(v.Body.List, locked)
	case *ast.RangeStmt:
		w.funcLits(v.X, locked)
		w.weaveList(v.Body.List, locked)
	case *ast.SwitchStmt:
		w.funcLits(v.Init, locked)
		w.funcLits(v.Tag, locked)
		for _, c := range v.Body.List {
			w.weaveList(c.(*ast.CaseClause).Body, locked)
		}
	case *ast.TypeSwitchStmt:
		for _, c := range v.Body.List {
			w.weaveList(c.(*ast.CaseClause).Body, locked)
		}
	case *ast.SelectStmt:
		for _, c := range v.Body.List {
			w.weaveList(c.(*ast.CommClause).Body, locked)
		}
	case *ast.GoStmt:
		w.funcLits(v.Call, locked)
	default:
		w.funcLits(s, locked)
	}
}

func weaveFile(path, importPath, prefix string) (int, []string, error) {
	src, err := os.ReadFile(path)
	if err != nil {
		return 0, nil, err
	}
	fset := token.NewFileSet()
	f, err := parser.ParseFile(fset, path, src, parser.ParseComments)
	if err != nil {
		return 0, nil, err
	}
	w := &weaver{src: src, fset: fset, file: prefix + "/" + filepath.Base(path), count: map[int]int{}}
	for _, d := range f.Decls {
		fd, ok := d.(*ast.FuncDecl)
		if !ok || fd.Body == nil {
			// package-level var initialisers with func literals
			if gd, ok := d.(*ast.GenDecl); ok {
				w.funcLits(gd, false)
			}
			continue
		}
		w.weaveList(fd.Body.List, false)
	}
	if len(w.ins) == 0 {
		return 0, nil, nil
	}
	// import right after the package clause, same line
	w.add(f.Name.End(), fmt.Sprintf("; import simrt %q", importPath))
	sort.SliceStable(w.ins, func(i, j int) bool {
		if w.ins[i].off != w.ins[j].off {
			return w.ins[i].off < w.ins[j].off
		}
		return w.ins[i].seq < w.ins[j].seq
	})
	var out strings.Builder
	prev := 0
	for _, in := range w.ins {
		if in.off < prev {
			return 0, nil, fmt.Errorf("%s: overlapping edits at offset %d", path, in.off)
		}
		out.Write(src[prev:in.off])
		out.WriteString(in.text)
		prev = in.off + in.del
	}
	out.Write(src[prev:])
	if err := os.WriteFile(path, []byte(out.String()), 0o644); err != nil {
		return 0, nil, err
	}
	return len(w.sites), w.sites, nil
}

func main() {
	imp := flag.String("import", "github.com/ClickHouse/ch-go/simrt", "import path of the simrt package")
	sitesOut := flag.String("sites", "", "write the list of woven sites to this file")
	flag.Parse()
	total := 0
	var all []string
	for _, dir := range flag.Args() {
		realDir := dir
		if i := strings.IndexByte(dir, '='); i >= 0 {
			realDir = dir[i+1:]
		}
		ents, err := os.ReadDir(realDir)
		if err != nil {
			fmt.Fprintln(os.Stderr, "weave:", err)
			os.Exit(2)
		}
		for _, e := range ents {
			n := e.Name()
			if e.IsDir() || !strings.HasSuffix(n, ".go") || strings.HasSuffix(n, "_test.go") {
				continue
			}
			prefix := filepath.Base(dir)
			if i := strings.IndexByte(dir, '='); i >= 0 {
				prefix = dir[:i]
			}
			c, sites, err := weaveFile(filepath.Join(realDir, n), *imp, prefix)
			if err != nil {
				fmt.Fprintln(os.Stderr, "weave:", err)
				os.Exit(2)
			}
			total += c
			all = append(all, sites...)
		}
	}
	if *sitesOut != "" {
		_ = os.WriteFile(*sitesOut, []byte(strings.Join(all, "\n")+"\n"), 0o644)
	}
	fmt.Printf("weave: %d sites\n", total)
}
