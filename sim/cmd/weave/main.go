// Command weave splices simrt.Yield("file:line") scheduling points in front of
// every statement of every function body of the Go files in the given
// directories. Insertion is textual, at the statement's byte offset on the same
// line, so line numbers are preserved. See DESIGN.md section 4.2.
//
// usage: weave -import <simrt import path> [prefix=]dir...
package main

import (
	"flag"
	"fmt"
	"go/ast"
	"go/parser"
	"go/token"
	"os"
	"path/filepath"
	"sort"
	"strings"
)

type ins struct {
	off  int
	text string
	seq  int
}

type weaver struct {
	fset  *token.FileSet
	file  string // base name
	ins   []ins
	sites []string
	count map[int]int // line -> n
}

func (w *weaver) site(pos token.Pos, suffix string) string {
	line := w.fset.Position(pos).Line
	n := w.count[line]
	w.count[line]++
	s := fmt.Sprintf("%s:%d", w.file, line)
	if n > 0 {
		s += fmt.Sprintf(".%d", n)
	}
	if suffix != "" {
		s += ":" + suffix
	}
	w.sites = append(w.sites, s)
	return s
}

func (w *weaver) add(pos token.Pos, text string) {
	w.ins = append(w.ins, ins{off: w.fset.Position(pos).Offset, text: text, seq: len(w.ins)})
}

// lockKind reports +1 for X.Lock()/X.RLock(), -1 for X.Unlock()/X.RUnlock().
func lockKind(s ast.Stmt) int {
	es, ok := s.(*ast.ExprStmt)
	if !ok {
		return 0
	}
	call, ok := es.X.(*ast.CallExpr)
	if !ok || len(call.Args) != 0 {
		return 0
	}
	sel, ok := call.Fun.(*ast.SelectorExpr)
	if !ok {
		return 0
	}
	switch sel.Sel.Name {
	case "Lock", "RLock":
		return 1
	case "Unlock", "RUnlock":
		return -1
	}
	return 0
}

func isOnceDo(call *ast.CallExpr) bool {
	sel, ok := call.Fun.(*ast.SelectorExpr)
	if !ok || sel.Sel.Name != "Do" || len(call.Args) != 1 {
		return false
	}
	if _, ok := call.Args[0].(*ast.FuncLit); !ok {
		return false
	}
	// receiver expression text contains "once" (closeOnce, errOnce, once ...)
	var name string
	switch x := sel.X.(type) {
	case *ast.Ident:
		name = x.Name
	case *ast.SelectorExpr:
		name = x.Sel.Name
	}
	return strings.Contains(strings.ToLower(name), "once")
}

// funcLits weaves function literals found in the expressions of a statement
// (not descending into nested statements lists, which weaveStmt handles).
func (w *weaver) funcLits(n ast.Node, locked bool) {
	if n == nil {
		return
	}
	ast.Inspect(n, func(x ast.Node) bool {
		switch v := x.(type) {
		case *ast.CallExpr:
			if isOnceDo(v) {
				// never park inside sync.Once.Do: visit receiver only
				return false
			}
		case *ast.FuncLit:
			// A literal defined while a lock is held may still be executed
			// later (goroutine, callback); its body is woven normally unless
			// it is invoked right here, which we cannot tell in general: be
			// conservative and skip bodies created under a lock.
			if !locked {
				w.weaveList(v.Body.List, false)
			}
			return false
		case *ast.BlockStmt:
			return false
		}
		return true
	})
}

func (w *weaver) weaveList(list []ast.Stmt, locked bool) {
	for _, s := range list {
		k := lockKind(s)
		if k < 0 {
			locked = false
		}
		w.weaveStmt(s, locked, true)
		if k > 0 {
			locked = true
		}
	}
}

func (w *weaver) weaveStmt(s ast.Stmt, locked bool, inList bool) {
	switch v := s.(type) {
	case *ast.LabeledStmt:
		// nothing in front of the label; the labelled statement's nested blocks are woven
		w.weaveStmt(v.Stmt, locked, false)
		return
	case *ast.DeferStmt:
		if !locked && inList {
			a := w.site(v.Pos(), "defer-after")
			b := w.site(v.Pos(), "defer-before")
			w.add(v.Pos(), fmt.Sprintf("defer simrt.Yield(%q); ", a))
			w.add(v.End(), fmt.Sprintf("; defer simrt.Yield(%q)", b))
		}
		w.funcLits(v.Call, locked)
		return
	case *ast.EmptyStmt:
		return
	}
	if !locked && inList {
		w.add(s.Pos(), fmt.Sprintf("simrt.Yield(%q); ", w.site(s.Pos(), "")))
	}
	switch v := s.(type) {
	case *ast.BlockStmt:
		w.weaveList(v.List, locked)
	case *ast.IfStmt:
		w.funcLits(v.Init, locked)
		w.funcLits(v.Cond, locked)
		w.weaveList(v.Body.List, locked)
		if v.Else != nil {
			w.weaveStmt(v.Else, locked, false)
		}
	case *ast.ForStmt:
		w.funcLits(v.Init, locked)
		w.funcLits(v.Cond, locked)
		w.funcLits(v.Post, locked)
		w.weaveList(v.Body.List, locked)
	case *ast.RangeStmt:
		w.funcLits(v.X, locked)
		w.weaveList(v.Body.List, locked)
	case *ast.SwitchStmt:
		w.funcLits(v.Init, locked)
		w.funcLits(v.Tag, locked)
		for _, c := range v.Body.List {
			w.weaveList(c.(*ast.CaseClause).Body, locked)
		}
	case *ast.TypeSwitchStmt:
		for _, c := range v.Body.List {
			w.weaveList(c.(*ast.CaseClause).Body, locked)
		}
	case *ast.SelectStmt:
		for _, c := range v.Body.List {
			w.weaveList(c.(*ast.CommClause).Body, locked)
		}
	case *ast.GoStmt:
		w.funcLits(v.Call, locked)
	default:
		w.funcLits(s, locked)
	}
}

func weaveFile(path, importPath, prefix string) (int, []string, error) {
	src, err := os.ReadFile(path)
	if err != nil {
		return 0, nil, err
	}
	fset := token.NewFileSet()
	f, err := parser.ParseFile(fset, path, src, parser.ParseComments)
	if err != nil {
		return 0, nil, err
	}
	w := &weaver{fset: fset, file: prefix + "/" + filepath.Base(path), count: map[int]int{}}
	for _, d := range f.Decls {
		fd, ok := d.(*ast.FuncDecl)
		if !ok || fd.Body == nil {
			// package-level var initialisers with func literals
			if gd, ok := d.(*ast.GenDecl); ok {
				w.funcLits(gd, false)
			}
			continue
		}
		w.weaveList(fd.Body.List, false)
	}
	if len(w.ins) == 0 {
		return 0, nil, nil
	}
	// import right after the package clause, same line
	w.add(f.Name.End(), fmt.Sprintf("; import simrt %q", importPath))
	sort.SliceStable(w.ins, func(i, j int) bool {
		if w.ins[i].off != w.ins[j].off {
			return w.ins[i].off < w.ins[j].off
		}
		return w.ins[i].seq < w.ins[j].seq
	})
	var out strings.Builder
	prev := 0
	for _, in := range w.ins {
		out.Write(src[prev:in.off])
		out.WriteString(in.text)
		prev = in.off
	}
	out.Write(src[prev:])
	if err := os.WriteFile(path, []byte(out.String()), 0o644); err != nil {
		return 0, nil, err
	}
	return len(w.sites), w.sites, nil
}

func main() {
	imp := flag.String("import", "github.com/ClickHouse/ch-go/simrt", "import path of the simrt package")
	sitesOut := flag.String("sites", "", "write the list of woven sites to this file")
	flag.Parse()
	total := 0
	var all []string
	for _, dir := range flag.Args() {
		realDir := dir
		if i := strings.IndexByte(dir, '='); i >= 0 {
			realDir = dir[i+1:]
		}
		ents, err := os.ReadDir(realDir)
		if err != nil {
			fmt.Fprintln(os.Stderr, "weave:", err)
			os.Exit(2)
		}
		for _, e := range ents {
			n := e.Name()
			if e.IsDir() || !strings.HasSuffix(n, ".go") || strings.HasSuffix(n, "_test.go") {
				continue
			}
			prefix := filepath.Base(dir)
			if i := strings.IndexByte(dir, '='); i >= 0 {
				prefix = dir[:i]
			}
			c, sites, err := weaveFile(filepath.Join(realDir, n), *imp, prefix)
			if err != nil {
				fmt.Fprintln(os.Stderr, "weave:", err)
				os.Exit(2)
			}
			total += c
			all = append(all, sites...)
		}
	}
	if *sitesOut != "" {
		_ = os.WriteFile(*sitesOut, []byte(strings.Join(all, "\n")+"\n"), 0o644)
	}
	fmt.Printf("weave: %d sites\n", total)
}
