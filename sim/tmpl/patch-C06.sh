#!/bin/bash
# C06 runs under an address-space limit: lower the library's own row cap in the
# scratch copy so that allocations the library permits by design stay small
# (the knob the property's hook_needed anticipates). Nothing in /repo changes.
f="$1/proto/block.go"
if grep -q 'maxRowsInBLock    = 100_000_000' "$f"; then
  sed -i 's/maxRowsInBLock    = 100_000_000/maxRowsInBLock    = 262_144/' "$f"
  echo "patch-C06: row cap lowered to 262144 in the scratch copy"
else
  echo "patch-C06: row cap constant not found; original cap kept" >&2
fi

f="$1/proto/reader.go"
if grep -q 'const maxStringSize = 1 << 30' "$f"; then
  sed -i 's/const maxStringSize = 1 << 30/const maxStringSize = 1 << 25/' "$f"
  echo "patch-C06: string size cap lowered to 32 MiB in the scratch copy"
fi
exit 0
