#!/bin/bash
# sweep.sh <tier> <seed...>: every check of MANIFEST.json at the given seeds; prints one line per run
tier=$1; shift
for seed in "$@"; do
  for p in C02 C03 C04 C05 C06 C07 C08 C09 C10 C11 C12 C13 C14 C15 C16; do
    out=$(VERIF_SEED=$seed ./check $p --tier $tier 2>&1); rc=$?
    echo "seed=$seed $p rc=$rc $(echo "$out" | tail -n 1 | cut -c1-140)"
    if [ $rc -ne 0 ]; then echo "$out" | grep -A3 "^VIOLATION\|^HARNESS\|^REPLAY\|^NONDET" | head -20 | cut -c1-300; fi
  done
done
